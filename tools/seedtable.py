#!/usr/bin/env python3
"""tools/seedtable.py -- regenerate the seeded-change table of DESIGN.md (section 10.2) from seeded/*/meta.json."""
import json, re
from pathlib import Path
root = Path('/verif')
rows = []
def key(p):
    a, b = p.name.split('-')
    return (a, int(b))
for d in sorted((p for p in (root / 'seeded').iterdir() if p.is_dir() and re.fullmatch(r'C\d\d-\d+', p.name)), key=key):
    m = json.loads((d / 'meta.json').read_text())
    cell = lambda s: str(s).replace('|', '/').replace('\n', ' ')[:150]
    det = ', '.join(m.get('detected_by', [])) or '**none**'
    if m.get('obsolete') and not m.get('detected_by'):
        det = 'none - overtaken by a repair (own demo passes)'
    if m.get('not_portable'):
        det = f"{det} (at {m.get('repo_head_when_confirmed', 'an earlier head')}; not replayable now)"
    rows.append(f"| {d.name} | {cell(m.get('summary', ''))} | {cell(m.get('needs', ''))} | {det} | {'yes' if m.get('strengthening') else ''} |")
table = '| seed | change (one line) | needs | caught by (quick) | check strengthened first? |\n|---|---|---|---|---|\n' + '\n'.join(rows) + '\n'
p = root / 'DESIGN.md'
s = p.read_text()
new, n = re.subn(r'\| seed \| change \(one line\) \| needs \| caught by \(quick\) \| check strengthened first\? \|\n\|---\|---\|---\|---\|---\|\n(\| C\d\d-\d+ \|.*\n)+', lambda _: table, s)
assert n == 1, n
p.write_text(new)
print(len(rows), 'rows;', sum('**none**' in r for r in rows), 'undetected;', sum('overtaken' in r for r in rows), 'overtaken;', sum(r.endswith('| yes |') for r in rows), 'needed strengthening')
