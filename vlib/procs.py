"""Fork-per-case runner: the wait status of a sacrificial child is the
observation (a SIGSEGV there is a finding, not an accident)."""
import faulthandler
import json
import os
import select
import signal
import sys
import tempfile
import time
import traceback


def run_forked(fn, timeout=120, faultlog_dir=None):
    """Run fn() in a fork()ed child.  Returns a dict:
       {'status': 'ok'|'signal'|'exit'|'timeout'|'exception', 'signal': n, 'code': n,
        'result': <what fn returned, JSON>, 'trace': <faulthandler / traceback text>}"""
    r, w = os.pipe()
    flog = tempfile.NamedTemporaryFile(prefix='fault', suffix='.log', dir=faultlog_dir, delete=False)
    sys.stdout.flush()
    sys.stderr.flush()
    pid = os.fork()
    if pid == 0:
        code = 0
        try:
            os.close(r)
            faulthandler.enable(file=flog, all_threads=False)
            try:
                out = {'result': fn()}
            except BaseException:
                out = {'exception': traceback.format_exc()[-4000:]}
                code = 3
            data = json.dumps(out, default=repr).encode()
            off = 0
            while off < len(data):
                off += os.write(w, data[off:off + 65536])
        except BaseException:
            code = 4
        finally:
            os._exit(code)
    os.close(w)
    chunks = []
    deadline = time.time() + timeout
    timed_out = False
    while True:
        left = deadline - time.time()
        if left <= 0:
            timed_out = True
            break
        ready, _, _ = select.select([r], [], [], min(left, 1.0))
        if ready:
            b = os.read(r, 1 << 16)
            if not b:
                break
            chunks.append(b)
    os.close(r)
    if timed_out:
        try:
            os.kill(pid, signal.SIGKILL)
        except ProcessLookupError:
            pass
    _, st = os.waitpid(pid, 0)
    flog.close()
    try:
        with open(flog.name, errors='replace') as f:
            trace = f.read()[-3000:]
    finally:
        os.unlink(flog.name)
    info = {'trace': trace}
    try:
        payload = json.loads(b''.join(chunks).decode() or '{}')
    except Exception:
        payload = {}
    if timed_out:
        info['status'] = 'timeout'
    elif os.WIFSIGNALED(st):
        info['status'] = 'signal'
        info['signal'] = os.WTERMSIG(st)
        try:
            info['signame'] = signal.Signals(info['signal']).name
        except ValueError:
            info['signame'] = str(info['signal'])
    elif 'exception' in payload:
        info['status'] = 'exception'
        info['trace'] = payload['exception']
    elif os.WEXITSTATUS(st) != 0:
        info['status'] = 'exit'
        info['code'] = os.WEXITSTATUS(st)
    else:
        info['status'] = 'ok'
    info['result'] = payload.get('result')
    return info


def run_case_forked(env, case, inner, timeout=180, what='case'):
    """Run inner(case, env) -> Result in a forked child and rebuild the Result in the parent.  A child that dies
    from a signal is a finding (mechanism child-killed-by-signal:<SIG>), not an accident of the harness."""
    from .common import Result

    def child():
        r = inner(case, env)
        sig = sorted(r.sig) if isinstance(r.sig, (set, frozenset)) else r.sig
        return {'sig': sig, 'sigset': isinstance(r.sig, (set, frozenset)), 'nontrivial': r.nontrivial, 'fails': r.fails,
                'counts': dict(r.counts), 'dims': {k: sorted(v, key=str) for k, v in r.dims.items()}, 'evals': r.evals,
                'reach': sorted(env.reach)}

    info = run_forked(child, timeout=timeout, faultlog_dir=str(env.scratch.root))
    res = Result()
    res.count('mon.child_status')
    res.count(f'child.{info["status"]}')
    if info['status'] == 'ok':
        r = info['result']
        env.reach.update(r['reach'])
        res.sig = set(r['sig']) if r['sigset'] else r['sig']
        res.nontrivial = r['nontrivial']
        res.fails = r['fails']
        res.counts.update(r['counts'])
        res.dims = {k: set(v) for k, v in r['dims'].items()}
        res.evals = r['evals']
    elif info['status'] == 'signal':
        res.fail(f'child-killed-by-signal:{info.get("signame")}',
                 f'{what} killed the interpreter with {info.get("signame")}: {info["trace"][-1200:]}', case=case)
    elif info['status'] == 'timeout':
        raise RuntimeError(f'child timed out on {what} (inconclusive)')
    else:
        raise RuntimeError(f'child failed: {info["trace"][-1500:]}')
    return res
