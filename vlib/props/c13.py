"""C13 — metadata behaves as a dictionary persisted to metadata.json."""
import itertools
import json
import random

import numpy as np

from ..common import Result

PID = 'C13'
LEVEL = 'exploration'
RULE = ('bounded-exhaustive op sequences (length <= 3 quick / <= 4 thorough) over 17 symbols {setitem, update(dict), '
        'update(**kw), update({}), update(non-serialisable), pop, pop-with-default, popitem, del} x keys {a,b} from 6 '
        'start states {no metadata, metadata at creation, metadata={} at creation} x {Array, RaggedArray}, values rotating through a pool of 24 '
        'kinds; plus random longer sequences. After every step all read accessors of the live and of a fresh handle '
        'are compared with the JSON round trip of a model dict, and metadata.json must exist iff the model is '
        'non-empty. Non-trivial = >= 1 successful mutation; distinct by (start, op sequence, value rotation)')
EXHAUSTIVE = False
EXHAUSTIVE_PART = 'all op-symbol sequences up to the length bound per start state'
ASSUMPTIONS = ['the JSON round trip of a Python dict with the documented NumPy conversions is the reference',
               'keys are strings; bytes values and np.bool_ are outside the statement and not judged']
ANCHORS = ['metadata:MetaData.update', 'metadata:MetaData.pop', 'metadata:MetaData.popitem',
           'metadata:MetaData._read', 'utils:write_jsonfile', 'utils:DDJSONEncoder.default']
REQUIRED = ['mon.strict_types', 'mon.accessors_live', 'mon.accessors_fresh', 'mon.file_iff_nonempty', 'mon.nonserialisable',
            'mon.missing_key']
MIN_NONTRIVIAL = {'quick': 5000, 'thorough': 50000}

SYMS = [('set', 'a'), ('set', 'b'), ('upd', 'a'), ('upd', 'b'), ('updkw', 'a'), ('updempty', None),
        ('updbad', 'a'), ('pop', 'a'), ('pop', 'b'), ('popd', 'a'), ('popd', 'b'), ('popitem', None),
        ('del', 'a'), ('del', 'b'), ('upd2', None), ('popsame', 'a'), ('setsingleton', 'a'), ('upditer', 'b')]
STARTS = [('Array', False), ('Array', True), ('RaggedArray', False), ('RaggedArray', True),
          ('Array', 'empty'), ('RaggedArray', 'empty')]


def pool():
    return [
        1, -7, 10 ** 30, 2.5, float('nan'), float('inf'), -0.0, 'text', 'é漢字 ☃', 'ctrl\n\t\x01\x7f"\\', '',
        True, False, None, [1, [2, 'x', None], {'k': [3.5]}], {'n': {'m': [1, 2]}, 'é': 1},
        np.int64(-5), np.uint64(2 ** 63), np.int8(3), np.float32(0.1), np.float64(1e300),
        np.array([1, 2, 3], dtype='int16'), np.array([[1.5, float('nan')]]), (1, 'two', 3.0),
        np.longdouble(2.5), np.float16(1.5), np.array([1.5, 2.5], dtype=np.longdouble), np.uint8(200),
        {'t': (1, (2, 3)), 'a': np.arange(3)},
    ]


def encode(o):
    if isinstance(o, np.integer):
        return int(o)
    if isinstance(o, np.floating):
        return float(o)
    if isinstance(o, np.ndarray):
        return o.tolist()
    raise TypeError(type(o))


def canon(x):
    """Canonical text of a JSON-representable object (NaN-aware comparison)."""
    return json.dumps(x, sort_keys=True, default=encode)


def roundtrip(model):
    return json.loads(json.dumps(model, default=encode))


def cases(tier, seed):
    L = 3 if tier == 'quick' else 4
    idx = 0
    for length in range(1, L + 1):
        for start in STARTS:
            for seq in itertools.product(range(len(SYMS)), repeat=length):
                idx += 1
                yield {'start': list(start), 'ops': list(seq), 'rot': (idx + seed) % 29,
                       'observe': 'end' if length > 1 and idx % 3 == 0 else 'every'}
    # metadata changed through two handle objects on the same array in turn (each must work on what is in the file now)
    from .. import hist_stale
    for c in hist_stale.array_cases(random.Random(f'C13:{seed}:stale'), 200 if tier == 'quick' else 2500, seed,
                                    hops=['h:md', 'h:md_pop', 'h:md', 'h:read']):
        c['start'] = ['stale-handle', False]
        c['steps'] = [s_ if s_ not in ('x:trunc', 'x:app', 'x:set') or c['vseed'][-1] in '13579' else 'x:md' for s_ in c['steps']]
        yield c
    rng = random.Random(f'C13:{seed}')
    for k in range(300 if tier == 'quick' else 3000):
        yield {'start': list(rng.choice(STARTS)), 'rot': rng.randrange(29),
               'ops': [rng.randrange(len(SYMS)) for _ in range(rng.randint(8, 40))],
               'observe': 'end' if k % 2 else 'every'}


class Unserialisable:
    pass


PLAIN = (dict, list, str, int, float, bool, type(None))


def plain_json(x):
    """True iff x consists of exactly the types a JSON parser produces (no NumPy scalars, tuples, arrays)."""
    if type(x) not in PLAIN:
        return False
    if type(x) is dict:
        return all(type(k) is str and plain_json(v) for k, v in x.items())
    if type(x) is list:
        return all(plain_json(v) for v in x)
    return True


def observe(res, md, model, tag):
    """Compare every read accessor with the JSON round trip of the model."""
    rt = roundtrip(model)
    res.count(f'mon.accessors_{tag}')
    checks = []
    try:
        res.count('mon.strict_types')
        whole = dict(md)
        if not plain_json(whole) or not all(plain_json(v) for v in md.values()) or \
                not all(plain_json(md[k]) and plain_json(md.get(k)) for k in whole):
            res.fail(f'accessor-returns-non-json-types:{tag}',
                     f'{tag} handle returns objects that are not the JSON round trip (NumPy scalars/arrays, tuples ...): {whole!r}')
            return False
        checks.append(('dict', canon(dict(md)), canon(rt)))
        checks.append(('len', len(md), len(rt)))
        for k in ('a', 'b', 'zz'):
            checks.append((f'in:{k}', k in md, k in rt))
            checks.append((f'get:{k}', canon(md.get(k)), canon(rt.get(k))))
            checks.append((f'getd:{k}', canon(md.get(k, 'dflt')), canon(rt.get(k, 'dflt'))))
            try:
                got = ('ok', canon(md[k]))
            except KeyError:
                got = ('KeyError',)
            except Exception as e:
                got = (type(e).__name__,)
            checks.append((f'getitem:{k}', got, ('ok', canon(rt[k])) if k in rt else ('KeyError',)))
        checks.append(('keys', sorted(md.keys()), sorted(rt.keys())))
        checks.append(('items', canon(sorted(md.items(), key=lambda kv: kv[0])),
                       canon(sorted(rt.items(), key=lambda kv: kv[0]))))
        checks.append(('values', sorted(canon(v) for v in md.values()), sorted(canon(v) for v in rt.values())))
    except Exception as e:
        res.fail(f'accessor-raised:{tag}:{type(e).__name__}', f'{tag} handle: read accessor raised {type(e).__name__}: {e}')
        return False
    for name, got, exp in checks:
        if got != exp:
            res.fail(f'accessor-mismatch:{tag}:{name.split(":")[0]}',
                     f'{tag} handle {name}: got {got!r}, model {exp!r}')
            return False
    return True


def run_case(case, env):
    res = Result()
    if case.get('kind') == 'stale':
        from .. import hist_stale
        hist_stale.run_array(env, res, case)
        res.sig = hist_stale.sig_of(case)
        res.dim('start', 'two handles in turn')
        return res
    D = env.darr
    kind, with_md = case['start']
    d = env.scratch.new('m')
    vals = pool()
    rot = case['rot']
    try:
        path = d / 'x'
        model = {'a': {'start': [1, 2.5]}, 'c': 'keep'} if with_md is True else {}
        mdarg = dict(model) if with_md else None      # 'empty' -> metadata={}
        if kind == 'Array':
            h = D.asarray(path, [1, 2, 3], metadata=mdarg, accessmode='r+')
            opener = D.Array
        else:
            h = D.asraggedarray(path, [[1, 2], [3]], metadata=mdarg, accessmode='r+')
            opener = D.RaggedArray
        mdfile = path / 'metadata.json'
        nmut = 0
        for i, si in enumerate([None] + case['ops']):
            res.count('steps')
            if si is not None:
                op, k = SYMS[si]
                v = vals[(rot + i * 7) % len(vals)]
                res.count(f'op.{op}')
                res.dim('value_kind', type(v).__name__)
                before = mdfile.read_bytes() if mdfile.exists() else None
                md = h.metadata
                exp_exc = None
                newmodel = dict(model)
                ret_expected = None
                if op == 'set':
                    newmodel[k] = v
                    call = lambda: md.__setitem__(k, v)
                elif op == 'upd':
                    newmodel[k] = v
                    call = lambda: md.update({k: v})
                elif op == 'updkw':
                    newmodel[k] = v
                    call = lambda: md.update(**{k: v})
                elif op == 'upd2':
                    newmodel.update({'a': v, 'b': [v]})
                    call = lambda: md.update({'a': v, 'b': [v]})
                elif op == 'upditer':       # dict.update also takes a (one-shot) iterable of pairs, with keywords
                    newmodel[k] = v
                    newmodel['kw'] = 1
                    call = lambda: md.update(zip([k], [v]), kw=1)
                elif op == 'updempty':
                    call = lambda: md.update({})
                elif op == 'updbad':
                    bad = [Unserialisable(), {1, 2}, 1 + 2j][(rot + i) % 3]
                    exp_exc = TypeError
                    res.count('mon.nonserialisable')
                    call = lambda: md.update({k: bad, 'fine': 1})
                elif op == 'pop':
                    if k in newmodel:
                        ret_expected = ('v', canon(roundtrip(newmodel)[k]))
                        del newmodel[k]
                    else:
                        exp_exc = KeyError
                        res.count('mon.missing_key')
                    call = lambda: md.pop(k)
                elif op == 'popd':
                    if k in newmodel:
                        ret_expected = ('v', canon(roundtrip(newmodel)[k]))
                        del newmodel[k]
                    else:
                        ret_expected = ('v', canon('dflt'))
                        res.count('mon.missing_key')
                    call = lambda: md.pop(k, 'dflt')
                elif op == 'setsingleton':
                    v = [None, True, False, 0, 1, '', 255][(rot + i) % 7]
                    newmodel[k] = v
                    call = lambda: md.__setitem__(k, v)
                elif op == 'popsame':
                    # default equal (for JSON singletons: identical) to the stored value
                    if k in newmodel:
                        dflt = roundtrip(newmodel)[k]
                        ret_expected = ('v', canon(dflt))
                        del newmodel[k]
                    else:
                        dflt = None
                        ret_expected = ('v', canon(None))
                        res.count('mon.missing_key')
                    call = lambda: md.pop(k, dflt)
                elif op == 'popitem':
                    if not newmodel:
                        exp_exc = KeyError
                    call = lambda: md.popitem()
                elif op == 'del':
                    if k in newmodel:
                        del newmodel[k]
                    else:
                        exp_exc = KeyError
                        res.count('mon.missing_key')
                    call = lambda: md.__delitem__(k)
                raised, ret = None, None
                try:
                    ret = call()
                except Exception as e:
                    raised = e
                where = f'step {i} {op}({k!r}) with model keys {sorted(model)}'
                if exp_exc is not None:
                    if raised is None:
                        res.fail(f'no-raise:{op}', f'{where}: expected {exp_exc.__name__}, returned {ret!r}', step=i)
                    elif not isinstance(raised, exp_exc):
                        res.fail(f'wrong-exception:{op}:{type(raised).__name__}',
                                 f'{where}: expected {exp_exc.__name__}, got {type(raised).__name__}: {raised}', step=i)
                    else:
                        after = mdfile.read_bytes() if mdfile.exists() else None
                        if after != before:
                            res.fail(f'failed-call-changed-file:{op}', f'{where}: raised but metadata.json changed', step=i)
                else:
                    if raised is not None:
                        res.fail(f'valid-call-raised:{op}:{type(raised).__name__}:{"empty" if not model else "nonempty"}-model',
                                 f'{where}: raised {type(raised).__name__}: {raised}', step=i)
                    else:
                        if op == 'popitem':
                            pk, pv = ret
                            if pk not in newmodel or canon(pv) != canon(roundtrip(newmodel)[pk]):
                                res.fail('popitem-returned-foreign-item', f'{where}: returned {ret!r}', step=i)
                            else:
                                del newmodel[pk]
                        elif ret_expected is not None and canon(ret) != ret_expected[1]:
                            res.fail(f'wrong-return:{op}', f'{where}: returned {ret!r}, expected {ret_expected[1]}', step=i)
                        if canon(newmodel) != canon(model):
                            nmut += 1
                        model = newmodel
                if res.fails:
                    break
            # ---- monitors after the step
            res.count('mon.file_iff_nonempty')
            if mdfile.exists() != bool(model):
                res.fail(f'file-existence:{"exists-but-empty-model" if mdfile.exists() else "missing-but-nonempty-model"}',
                         f'after step {i}: metadata.json exists={mdfile.exists()} but model has {len(model)} items',
                         step=i, ops=[SYMS[s] for s in case['ops'][:i]])
                break
            if case.get('observe') == 'end' and 0 < i < len(case['ops']):
                res.count('steps_unobserved')     # reading through the live handle must not become part of the workload
                continue
            # in a quarter of the histories the live handle is read in mode r (mutations stay in r+): what a handle
            # shows must not depend on the mode it was in when it looked last
            romode = rot % 4 == 1
            if romode:
                h.accessmode = 'r'
                res.count('mon.live_reads_in_mode_r')
            okl = observe(res, h.metadata, model, 'live')
            if romode:
                h.accessmode = 'r+'
            if not okl:
                break
            if not observe(res, opener(path).metadata, model, 'fresh'):
                break
        for f in res.fails:
            f['witness'].setdefault('ops', [list(SYMS[s]) for s in case['ops']])
            f['witness']['start'] = case['start']
        res.nontrivial = nmut >= 1
        res.sig = repr((tuple(case['start']), tuple(case['ops']), rot))
        res.dim('start', f'{kind}/{with_md}')
        return res
    finally:
        env.scratch.drop(d)
