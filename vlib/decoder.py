"""Independent Format Decoder (IFD).

Reads a Darr array / ragged array directory using only the documented format:
headerless raw values in C order + arraydescription.json.  Imports nothing
from darr.  Type table, byte-order handling and structural checks are our own.
"""
import json
import os
import struct
from pathlib import Path

import numpy as np

# numtype -> (numpy kind letter, item size, struct code or None)
TYPES = {
    'int8': ('i', 1, 'b'), 'int16': ('i', 2, 'h'), 'int32': ('i', 4, 'i'),
    'int64': ('i', 8, 'q'), 'uint8': ('u', 1, 'B'), 'uint16': ('u', 2, 'H'),
    'uint32': ('u', 4, 'I'), 'uint64': ('u', 8, 'Q'), 'float16': ('f', 2, 'e'),
    'float32': ('f', 4, 'f'), 'float64': ('f', 8, 'd'),
    'complex64': ('c', 8, 'f'), 'complex128': ('c', 16, 'd'),
}
INTEGER_TYPES = {k for k, v in TYPES.items() if v[0] in 'iu'}
ORDERS = {'little': '<', 'big': '>'}
ARRAY_KEYS = ('numtype', 'byteorder', 'shape', 'arrayorder', 'darrversion',
              'darrobject')


class FormatError(Exception):
    """The directory is not a well-formed Darr array per the documented format."""


def prod(seq):
    n = 1
    for x in seq:
        n *= x
    return n


def read_descr(d, filename='arraydescription.json'):
    p = Path(d) / filename
    if not p.is_file():
        raise FormatError(f'{filename} missing in {d}')
    try:
        txt = p.read_bytes().decode('utf-8')
        j = json.loads(txt)
    except Exception as e:
        raise FormatError(f'{filename} not parseable as UTF-8 JSON: {e}')
    if not isinstance(j, dict):
        raise FormatError(f'{filename} is not a JSON dictionary')
    return j


def decode_array(d, require_readme=True):
    """-> (ndarray, descr dict).  Raises FormatError when not well-formed."""
    d = Path(d)
    j = read_descr(d)
    for k in ARRAY_KEYS:
        if k not in j:
            raise FormatError(f"descriptor lacks key '{k}'")
    if j['numtype'] not in TYPES:
        raise FormatError(f"unknown numtype {j['numtype']!r}")
    if j['byteorder'] not in ORDERS:
        raise FormatError(f"unknown byteorder {j['byteorder']!r}")
    if j['arrayorder'] not in ('C', 'F'):
        raise FormatError(f"unknown arrayorder {j['arrayorder']!r}")
    if j['darrobject'] != 'Array':
        raise FormatError(f"darrobject is {j['darrobject']!r}, not 'Array'")
    if not isinstance(j['darrversion'], str):
        raise FormatError('darrversion not a string')
    shape = j['shape']
    if not isinstance(shape, list) or len(shape) == 0 or not all(
            type(x) is int and x >= 0 for x in shape):
        raise FormatError(f'shape {shape!r} is not a non-empty list of non-negative ints')
    kind, size, _ = TYPES[j['numtype']]
    f = d / 'arrayvalues.bin'
    if not f.is_file():
        raise FormatError('arrayvalues.bin missing')
    raw = f.read_bytes()
    if len(raw) != prod(shape) * size:
        raise FormatError(f'arrayvalues.bin has {len(raw)} bytes, descriptor '
                          f'implies {prod(shape)}*{size}={prod(shape) * size}')
    if require_readme and not (d / 'README.txt').is_file():
        raise FormatError('README.txt missing')
    dt = np.dtype(ORDERS[j['byteorder']] + kind + str(size))
    ar = np.frombuffer(raw, dtype=dt).reshape(shape, order=j['arrayorder'])
    return ar, j


def pack_reference(values, numtype, byteorder):
    """File bytes for a flat list of Python numbers, produced with struct only
    (shares not even NumPy's byte-order handling with the code under test)."""
    kind, size, code = TYPES[numtype]
    pre = ORDERS[byteorder]
    out = bytearray()
    for v in values:
        if kind == 'c':
            out += struct.pack(pre + code, v.real) + struct.pack(pre + code, v.imag)
        else:
            out += struct.pack(pre + code, v)
    return bytes(out)


RAGGED_KEYS = ('len', 'size', 'atom', 'numtype', 'darrversion', 'darrobject')


def decode_ragged(d):
    """-> (list of subarrays, info dict).  Checks the C05 structural invariant."""
    d = Path(d)
    try:
        values, vj = decode_array(d / 'values')
    except FormatError as e:
        raise FormatError(f'values/: {e}')
    try:
        indices, ij = decode_array(d / 'indices')
    except FormatError as e:
        raise FormatError(f'indices/: {e}')
    top = read_descr(d)
    for k in RAGGED_KEYS:
        if k not in top:
            raise FormatError(f"top-level descriptor lacks key '{k}'")
    if not (d / 'README.txt').is_file():
        raise FormatError('top-level README.txt missing')
    if ij['numtype'] not in INTEGER_TYPES:
        raise FormatError(f"indices numtype {ij['numtype']} is not an integer type")
    if indices.ndim != 2 or indices.shape[1] != 2:
        raise FormatError(f'indices shape {indices.shape} is not (n, 2)')
    if values.ndim < 1:
        raise FormatError('values has no axis')
    n = indices.shape[0]
    N = values.shape[0]
    atom = tuple(values.shape[1:])
    ind = [(int(a), int(b)) for a, b in indices.tolist()]
    orphan = False
    if n > 0:
        if ind[0][0] != 0:
            raise FormatError(f'indices[0,0] = {ind[0][0]}, not 0')
        prev = 0
        for k, (a, b) in enumerate(ind):
            if a > b:
                raise FormatError(f'indices[{k}] = ({a},{b}): start > end')
            if a != prev:
                raise FormatError(f'indices[{k}] start {a} != previous end {prev}')
            prev = b
        if prev != N:
            raise FormatError(f'last end {prev} != number of value rows {N}')
    else:
        orphan = N != 0
    if top['darrobject'] != 'RaggedArray':
        raise FormatError(f"top darrobject {top['darrobject']!r}")
    if top['len'] != n:
        raise FormatError(f"top len {top['len']!r} != {n} index rows")
    if top['size'] != N * prod(atom):
        raise FormatError(f"top size {top['size']!r} != stored values {N * prod(atom)}")
    if list(top['atom']) != list(atom):
        raise FormatError(f"top atom {top['atom']!r} != {list(atom)}")
    if top['numtype'] != vj['numtype']:
        raise FormatError(f"top numtype {top['numtype']!r} != values numtype {vj['numtype']!r}")
    if not isinstance(top['darrversion'], str):
        raise FormatError('top darrversion not a string')
    subs = [values[a:b] for a, b in ind]
    info = {'n': n, 'N': N, 'atom': atom, 'numtype': vj['numtype'],
            'byteorder': vj['byteorder'], 'indextype': ij['numtype'],
            'indexorder': ij['byteorder'], 'orphan_values': orphan,
            'nempty': sum(1 for a, b in ind if a == b)}
    return subs, info


def selftest(d):
    """Decode a directory made by ./check --setup from '<i2' arange(6) (3,2)."""
    ar, j = decode_array(d)
    raw = (Path(d) / 'arrayvalues.bin').read_bytes()
    assert raw == pack_reference(range(6), 'int16', 'little'), raw
    assert raw == b'\x00\x00\x01\x00\x02\x00\x03\x00\x04\x00\x05\x00'
    assert ar.tolist() == [[0, 1], [2, 3], [4, 5]] and ar.dtype.str == '<i2'
    assert pack_reference([1 + 2j], 'complex64', 'big') == \
        b'\x3f\x80\x00\x00\x40\x00\x00\x00'
    print('independent decoder self-test ok')
