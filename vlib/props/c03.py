"""C03 — Array histories of append/assign/truncate equal the NumPy model and persist."""
import itertools
import random

from .. import gens, hist_array, hist_stale
from ..common import Result

PID = 'C03'
LEVEL = 'exploration'
RULE = ('bounded-exhaustive operation sequences (quick: all of length <= 2 and every second one of length 3, alternating with the '
        'seed; thorough: all of length <= 4) over a 22-op alphabet from 5 '
        'start shapes with the dtype/byte order rotating through all 26 combinations, plus long random histories '
        '(30-200 steps, 29 op kinds); after every step: live handle, fresh handle and raw files vs NumPy model, '
        'prefix bytes, rejected calls leave state unchanged. Non-trivial = at least one successful state-changing '
        'step; distinct by (start shape, dtype, byte order, op sequence)')
EXHAUSTIVE = False
EXHAUSTIVE_PART = 'all op sequences up to the length bound over the compact alphabet, per start shape'
ASSUMPTIONS = ['NumPy concatenate/astype/slicing is the reference semantics',
               'casts NumPy leaves platform-defined (NaN/inf/out-of-range float -> int) are not generated',
               'bool truncate indices are not generated (ambiguous)']
ANCHORS = ['array:Array.append', 'array:Array.iterappend', 'array:Array._append',
           'array:Array._checkarrayforappend', 'array:truncate_array', 'array:Array._update_len',
           'array:Array.__setitem__', 'array:Array.__getitem__']
REQUIRED = ['mon.live_handle', 'mon.fresh_handle', 'mon.ifd_array', 'mon.prefix_append',
            'mon.prefix_truncate', 'mon.rejected_calls']
MIN_NONTRIVIAL = {'quick': 8000, 'thorough': 100000}
MONITORS = {'model', 'ifd_model', 'prefix', 'reject'}

COMBOS = [(t, b) for t in gens.T13 for b in gens.BO]


def cases(tier, seed):
    L = 3 if tier == 'quick' else 4
    idx = 0
    for length in range(1, L + 1):
        for start in hist_array.STARTS:
            for ops in itertools.product(hist_array.ALPHABET, repeat=length):
                nt, bo = COMBOS[(idx + seed) % len(COMBOS)]
                idx += 1
                if tier == 'quick' and length == 3 and (idx + seed) % 2:
                    continue        # quick: every second length-3 sequence (the other half with the next seed)
                yield {'start': {'shape': list(start), 'numtype': nt, 'bo': bo},
                       'ops': list(ops), 'vseed': f'{seed}:{idx}',
                       'observe': 'end' if length > 1 and idx % 3 == 0 else 'every'}
    rng = random.Random(f'C03:{seed}:long')
    nlong = 400 if tier == 'quick' else 4000
    allops = hist_array.ALPHABET + hist_array.EXTRA
    for k in range(nlong):
        nt, bo = COMBOS[k % len(COMBOS)]
        start = rng.choice(hist_array.STARTS + [(1,), (5, 1), (0, 2, 1, 2), (11,), (10, 2), (100,)])
        n = rng.randint(30, 60 if tier == 'quick' else 200)
        yield {'start': {'shape': list(start), 'numtype': nt, 'bo': bo, 'chunklen': rng.choice([1, 2, 100])},
               'ops': [rng.choice(allops) for _ in range(n)], 'vseed': f'{seed}:L{k}',
               'observe': 'sparse' if k % 2 else 'every'}
    # histories in which the array changes behind the handle (by path / second handle / re-creation) before it is used again
    yield from hist_stale.array_cases(random.Random(f'C03:{seed}:stale'), 300 if tier == 'quick' else 4000, seed)


def run_case(case, env):
    res = Result()
    if case.get('kind') == 'stale':
        hist_stale.run_array(env, res, case, want_readme=False)
        res.sig = hist_stale.sig_of(case)
        res.dim('history_length', 'stale-handle')
        return res
    hist_array.run(env, res, case, MONITORS)
    res.sig = hist_array.sig_of(case)
    res.dim('dtype', f"{case['start']['numtype']}/{case['start']['bo']}")
    res.dim('start_shape', tuple(case['start']['shape']))
    res.dim('history_length', len(case['ops']) if len(case['ops']) < 5 else 'long')
    return res
