#!/bin/bash
# usage: tools/seedtest.sh <patch.diff> <ID> [<ID>...]   -- apply a seeded change to /repo, run quick checks, undo
set -u
patch="$1"; shift
cd /verif
if ! git -C /repo diff --quiet; then echo "/repo not clean"; exit 2; fi
git -C /repo apply "$patch" || { echo "PATCH DOES NOT APPLY"; exit 3; }
for id in "$@"; do
  out=$(VERIF_TIER=${TIER:-quick} ./check $id 2>&1); rc=$?
  echo "== $id rc=$rc :: $(echo "$out" | grep -m1 -E "refuted \[|INCONCLUSIVE" | cut -c1-300)"
done
git -C /repo checkout -- . 
git -C /repo status --short | head -3
