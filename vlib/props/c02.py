"""C02 — the files alone reconstruct the array (independent decoder vs Darr API)."""
import random

import numpy as np

from .. import decoder, gens, hist_array, hist_stale
from ..common import Result
from ..monitors import bits_equal

PID = 'C02'
LEVEL = 'exploration'
RULE = ('(a) the finite table 13 types x 2 byte orders x 6 writers (asarray, asarray+append, create_array fill, generator iterappend, append and iterappend of opposite-byte-order ndarrays) '
        'enumerated completely: raw file bytes compared with bytes built by struct.pack with explicit </> prefix; '
        '(b) random histories (create / append / iterappend / assign / truncate / metadata / overwrite=True '
        're-creation with other type and size) with the independent decoder evaluated after every step and compared '
        'with what live and fresh Darr handles report; (c) stale-handle histories (the array truncated by path, changed '
        'through a second handle or re-created behind a long-lived handle that is then read, assigned, appended to or '
        'truncated), decoder and fresh handle vs model after every step. Non-trivial = a step changed the data file or descriptor; '
        'distinct by (start, dtype, byte order, op sequence) or table cell')
EXHAUSTIVE = False
EXHAUSTIVE_PART = '13x2 type/byte-order table x 6 writers'
ASSUMPTIONS = ['the decoder in vlib/decoder.py transcribes the documented format (docs/design.rst, README text)',
               'struct.pack is a correct reference for IEEE/two\'s-complement encodings']
ANCHORS = ['array:asarray', 'array:Array._update_arrayinfo', 'array:Array._update_len',
           'numtype:arraynumtypeinfo', 'numtype:arrayinfotodtype', 'utils:write_jsonfile',
           'array:Array._check_arrayinfoconsistency']
REQUIRED = ['mon.ifd_vs_api', 'mon.struct_table']
MIN_NONTRIVIAL = {'quick': 1500, 'thorough': 20000}
MONITORS = {'ifd_api'}

COMBOS = [(t, b) for t in gens.T13 for b in gens.BO]


def table_values(numtype):
    k = np.dtype(numtype).kind
    if k in 'iu':
        ii = np.iinfo(numtype)
        return [int(ii.min), int(ii.max), 0, 1, 2, 77] + ([-1, -2] if k == 'i' else [3, 254 % (int(ii.max) + 1)])
    fi = np.finfo(numtype)
    f = [0.0, -0.0, 1.5, -2.25, float('inf'), float('-inf'), float(fi.max), float(fi.smallest_subnormal),
         float(fi.tiny), float('nan')]
    if k == 'f':
        return f
    return [complex(a, b) for a, b in zip(f, f[1:] + f[:1])]


def cases(tier, seed):
    for nt, bo in COMBOS:
        for writer in ('asarray', 'append', 'fill', 'iterappend-gen', 'append-swapped', 'iterappend-swapped'):
            yield {'kind': 'table', 'numtype': nt, 'bo': bo, 'writer': writer}
    rng = random.Random(f'C02:{seed}')
    n = 2200 if tier == 'quick' else 30000
    allops = hist_array.ALPHABET + hist_array.EXTRA + ['recreate', 'recreate_fill', 'md_set']
    for k in range(n):
        nt, bo = COMBOS[k % len(COMBOS)]
        start = rng.choice(hist_array.STARTS + [(1,), (4, 3), (0, 2, 1, 2), (2, 3, 1, 2), (11,), (10, 2), (100,)])
        length = rng.randint(2, 12) if k % 10 else rng.randint(30, 80)
        yield {'kind': 'history', 'start': {'shape': list(start), 'numtype': nt, 'bo': bo,
                                           'chunklen': rng.choice([1, 2, 3, 100])},
               'ops': [rng.choice(allops) for _ in range(length)], 'vseed': f'{seed}:{k}',
               'observe': ['every', 'sparse', 'end'][k % 3]}
    # (c) the array is changed behind a long-lived handle (by path, second handle, re-creation) and the handle is used again
    yield from hist_stale.array_cases(random.Random(f'C02:{seed}:stale'), 300 if tier == 'quick' else 4000, seed)


def run_table(case, env, res):
    D = env.darr
    nt, bo, writer = case['numtype'], case['bo'], case['writer']
    vals = table_values(nt)
    dtype = gens.dt(nt, bo)
    d = env.scratch.new('t')
    try:
        path = d / 'a'
        arr = np.array(vals, dtype=dtype)
        expected_vals = vals
        if writer == 'asarray':
            a = D.asarray(path, arr, chunklen=3)
        elif writer == 'append':
            a = D.asarray(path, arr[:4], accessmode='r+', chunklen=2)
            a.append(arr[4:])
        elif writer in ('append-swapped', 'iterappend-swapped'):
            # the appended ndarrays have the same numeric type in the OPPOSITE byte order (seed C02-21); nan payloads
            # survive because astype between byte orders is a byte swap
            sw = dtype.newbyteorder('S') if dtype.itemsize > 1 else dtype
            a = D.asarray(path, arr[:4], accessmode='r+', chunklen=2)
            if writer == 'append-swapped':
                a.append(arr[4:].astype(sw))
            else:
                a.iterappend(c for c in (arr[4:6].astype(sw), arr[6:].astype(sw)))
        elif writer == 'iterappend-gen':
            a = D.asarray(path, (c for c in (arr[:2], arr[2:5])), accessmode='r+')
            a.iterappend(c for c in (arr[5:6], arr[6:]))
        else:
            fillv = vals[3]
            a = D.create_array(path, shape=(5,), dtype=dtype, fill=fillv, chunklen=2)
            expected_vals = [fillv] * 5
        res.count('mon.struct_table')
        raw = (path / 'arrayvalues.bin').read_bytes()
        want = decoder.pack_reference(expected_vals, nt, bo)
        j = decoder.read_descr(path)
        if raw != want:
            res.fail(f'table:bytes-differ:{writer}',
                     f'{nt}/{bo} via {writer}: file bytes {raw.hex()[:80]} != struct.pack reference {want.hex()[:80]}',
                     numtype=nt, bo=bo)
        elif j.get('numtype') != nt or (j.get('byteorder') != bo and dtype.itemsize > 1) \
                or j.get('byteorder') not in ('little', 'big'):  # 1-byte types have no byte order
            res.fail(f'table:descriptor-label:{writer}',
                     f"{nt}/{bo} via {writer}: descriptor says {j.get('numtype')}/{j.get('byteorder')}",
                     numtype=nt, bo=bo)
        else:
            hist_array.ifd_vs_api(res, D, path, a)
        res.nontrivial = True
        res.sig = repr(('table', nt, bo, writer))
        res.dim('table_cell', f'{nt}/{bo}')
    finally:
        env.scratch.drop(d)


def run_case(case, env):
    res = Result()
    if case['kind'] == 'table':
        run_table(case, env, res)
        return res
    if case['kind'] == 'stale':
        hist_stale.run_array(env, res, case, want_readme=False)
        res.sig = hist_stale.sig_of(case)
        res.dim('stale_steps', '>'.join(sorted(set(case['steps']))))
        return res
    hist_array.run(env, res, case, MONITORS)
    res.sig = hist_array.sig_of(case)
    res.dim('dtype', f"{case['start']['numtype']}/{case['start']['bo']}")
    return res
