#!/usr/bin/env python3
"""tools/seedkeep.py <ID> <k> [check ids...]
Confirms a sub-agent's seeded change in a scratch worktree (applies cleanly, existing tests pass, demo exits 0 clean and
1 patched), runs the named quick checks against it in /repo (apply, run, undo) and files it under /verif/seeded/."""
import json, os, shutil, subprocess, sys, re
from pathlib import Path

ID, k = sys.argv[1], sys.argv[2]
checks = sys.argv[3:] or [ID]
src = Path(f'/tmp/seedout/{ID}')
patch, demo, meta = src / f'patch{k}.diff', src / f'demo{k}.py', src / f'meta{k}.json'
env = dict(os.environ, PYTHONDONTWRITEBYTECODE='1')
def sh(cmd, **kw):
    return subprocess.run(cmd, shell=True, text=True, capture_output=True, env=env, **kw)
wt = f'/tmp/seedchk_{ID}_{k}'
sh(f'git -C /repo worktree remove --force {wt}')
assert sh(f'git -C /repo worktree add -q --detach {wt} HEAD').returncode == 0
rec = {}
try:
    rec['demo_clean_exit'] = sh(f'/venv/bin/python {demo} {wt}', timeout=600).returncode
    ap = sh(f'git -C {wt} apply {patch}')
    rec['applies'] = ap.returncode == 0
    if not rec['applies']:
        print('PATCH DOES NOT APPLY', ap.stderr[:300]); sys.exit(3)
    t = sh(f'cd {wt} && /venv/bin/python -m pytest -q -p no:cacheprovider 2>&1 | tail -3', timeout=1800)
    rec['tests_tail'] = t.stdout.strip().splitlines()[-1] if t.stdout.strip() else ''
    rec['tests_pass'] = bool(re.search(r'187 passed', rec['tests_tail'])) and 'failed' not in rec['tests_tail']
    rec['demo_patched_exit'] = sh(f'/venv/bin/python {demo} {wt}', timeout=600).returncode
finally:
    sh(f'git -C /repo worktree remove --force {wt}')
print('confirmed:', rec)
ok = rec['demo_clean_exit'] == 0 and rec['tests_pass'] and rec['demo_patched_exit'] == 1
caught = {}
if ok:
    assert sh('git -C /repo diff --quiet').returncode == 0, '/repo not clean'
    assert sh(f'git -C /repo apply {patch}').returncode == 0
    try:
        for c in checks:
            r = sh(f'cd /verif && ./check {c} --tier quick', timeout=3600)
            line = next((l.strip() for l in r.stdout.splitlines() if 'refuted [' in l or 'INCONCLUSIVE' in l), '')
            viol = 'VIOLATION property=' in r.stdout
            caught[c] = {'rc': r.returncode, 'violation_line': viol, 'first': line[:400]}
            print(f'  check {c}: rc={r.returncode} {line[:260]}')
    finally:
        sh('git -C /repo checkout -- .')
    # restore evidence files from the unchanged tree (they were rewritten by the runs above)
    sh('cd /verif && git checkout -- evidence')
dst = Path(f'/verif/seeded/{ID}-{k}')
if ok:
    dst.mkdir(parents=True, exist_ok=True)
    shutil.copy(patch, dst / 'patch.diff'); shutil.copy(demo, dst / 'demo.py')
    m = json.loads(meta.read_text()) if meta.exists() else {}
    m.update({'property': ID, 'confirmed': rec, 'repo_head_when_confirmed': sh('git -C /repo rev-parse --short HEAD').stdout.strip(),
              'ran': f'scratch worktree: demo (clean) / git apply / full pytest / demo (patched); then in /repo: git apply, ./check <id> --tier quick for {checks}, git checkout -- .',
              'checks': caught, 'detected_by': [c for c, v in caught.items() if v['rc'] == 1 and v['violation_line']]})
    (dst / 'meta.json').write_text(json.dumps(m, indent=1))
    print('kept ->', dst, 'detected_by', m['detected_by'])
else:
    print('NOT KEPT', rec)
