"""Reference semantics for the foreign-language read code (C06 / C07).

Everything here is our own transcription of the languages' documented
binary-read / reshape / indexing semantics (DESIGN Appendix A); nothing is
imported from darr.readcode*.  A program that does not match the strict
template of its language is *malformed*.
"""
import re
from pathlib import Path

import numpy as np

from . import decoder


class Malformed(Exception):
    pass


class WrongDenotation(Exception):
    pass


COLUMN_MAJOR = {'R', 'matlab', 'scilab', 'julia_ver0', 'julia_ver1', 'julia', 'idl', 'maple'}
ROW_MAJOR = {'mathematica'}

# ------------------------------------------------------------- offer tables
_ALL = set(decoder.TYPES)
OFFER = {
    'idl': _ALL - {'int8', 'float16'},
    'julia_ver0': set(_ALL), 'julia_ver1': set(_ALL), 'julia': set(_ALL),
    'maple': {'int8', 'int16', 'int32', 'int64', 'float32', 'float64'},
    'mathematica': _ALL - {'float16'},
    'matlab': set(_ALL),
    'numpy': set(_ALL), 'numpymemmap': set(_ALL), 'darr': set(_ALL),
    'python': _ALL - {'float16'},
    'R': {'int8', 'int16', 'int32', 'uint8', 'uint16', 'float32', 'float64', 'complex128'},
    'scilab': _ALL - {'float16'},
}
ARRAY_LANGS = ['darr', 'idl', 'julia_ver0', 'julia_ver1', 'mathematica', 'matlab', 'maple', 'numpy', 'numpymemmap',
               'python', 'R', 'scilab']
RAGGED_LANGS = ['darr', 'idl', 'julia', 'maple', 'mathematica', 'matlab', 'numpymemmap', 'R', 'scilab']


def offered_array(lang, numtype, ndim):
    if numtype not in OFFER[lang]:
        return False
    if lang == 'python' and ndim > 1:
        return False
    return True


def offered_ragged(lang, vtype, itype, nvalues):
    v = vtype in OFFER[lang]
    i = itype in OFFER[lang]
    if lang == 'R' and itype == 'int64':
        i = nvalues <= 2 ** 31 - 1      # anchored allowance for int64 *index* arrays
    return v and i


# ------------------------------------------------------------ comment strip

def strip_comments(lang, text):
    if lang in ('R', 'julia_ver0', 'julia_ver1', 'julia', 'maple'):
        text = re.sub(r'#[^\n]*', '', text)
    elif lang == 'matlab':
        text = re.sub(r'%[^\n]*', '', text)
    elif lang == 'scilab':
        text = re.sub(r'/\*.*?\*/', '', text, flags=re.S)
    elif lang == 'idl':
        text = re.sub(r';[^\n]*', '', text)
    elif lang == 'mathematica':
        text = re.sub(r'\(\*.*?\*\)', '', text, flags=re.S)
    return text


def squash(text):
    return re.sub(r'\s+', ' ', text).strip()


INT = r'(\d+)'
DIMS = r'(\d+(?:\s*,\s*\d+)*)'
FILE = r'([^"\']+)'


def dimlist(s):
    return [int(x) for x in s.replace(' ', '').split(',') if x]


# ---------------------------------------------------------- type token maps
R_TYPES = {('integer()', 1, 'TRUE'): 'int8', ('integer()', 1, 'FALSE'): 'uint8', ('integer()', 2, 'TRUE'): 'int16',
           ('integer()', 2, 'FALSE'): 'uint16', ('integer()', 4, 'TRUE'): 'int32', ('integer()', 8, 'TRUE'): 'int64',
           ('numeric()', 4, 'TRUE'): 'float32', ('numeric()', 8, 'TRUE'): 'float64',
           ('numeric()', 4, 'FALSE'): 'float32', ('numeric()', 8, 'FALSE'): 'float64',
           ('complex()', 16, 'TRUE'): 'complex128', ('complex()', 16, 'FALSE'): 'complex128'}
MATLAB_TYPES = {'int8': 'int8', 'int16': 'int16', 'int32': 'int32', 'int64': 'int64', 'uint8': 'uint8',
                'uint16': 'uint16', 'uint32': 'uint32', 'uint64': 'uint64', 'float32': 'float32', 'single': 'float32',
                'float64': 'float64', 'double': 'float64'}
MATLAB_ENDIAN = {'ieee-le': 'little', 'ieee-be': 'big', 'l': 'little', 'b': 'big'}
SCILAB_TYPES = {('mgeti', 'c'): 'int8', ('mgeti', 's'): 'int16', ('mgeti', 'i'): 'int32', ('mgeti', 'l'): 'int64',
                ('mgeti', 'uc'): 'uint8', ('mgeti', 'us'): 'uint16', ('mgeti', 'ui'): 'uint32', ('mgeti', 'ul'): 'uint64',
                ('mget', 'f'): 'float32', ('mget', 'd'): 'float64'}
JULIA_TYPES = {'Int8': 'int8', 'Int16': 'int16', 'Int32': 'int32', 'Int64': 'int64', 'UInt8': 'uint8',
               'UInt16': 'uint16', 'UInt32': 'uint32', 'UInt64': 'uint64', 'Float16': 'float16', 'Float32': 'float32',
               'Float64': 'float64', 'Complex{Float32}': 'complex64', 'ComplexF32': 'complex64',
               'Complex{Float64}': 'complex128', 'ComplexF64': 'complex128'}
JULIA_ENDIAN = {'ltoh': 'little', 'ntoh': 'big'}
IDL_TYPES = {1: 'uint8', 2: 'int16', 3: 'int32', 4: 'float32', 5: 'float64', 6: 'complex64', 9: 'complex128',
             12: 'uint16', 13: 'uint32', 14: 'int64', 15: 'uint64'}
MMA_TYPES = {'Integer8': 'int8', 'Integer16': 'int16', 'Integer32': 'int32', 'Integer64': 'int64',
             'UnsignedInteger8': 'uint8', 'UnsignedInteger16': 'uint16', 'UnsignedInteger32': 'uint32',
             'UnsignedInteger64': 'uint64', 'Real32': 'float32', 'Real64': 'float64', 'Complex64': 'complex64',
             'Complex128': 'complex128'}
MMA_ENDIAN = {'-1': 'little', '+1': 'big', '1': 'big'}
MAPLE_TYPES = {'integer[1]': 'int8', 'integer[2]': 'int16', 'integer[4]': 'int32', 'integer[8]': 'int64',
               'float[4]': 'float32', 'float[8]': 'float64'}


def _lookup(table, key, what):
    if key not in table:
        raise Malformed(f'{what} token {key!r} is not a valid token of the language')
    return table[key]


# ------------------------------------------------------------ block parsers
# Each returns a dict: file, numtype, bo, count (or None), dims (list in the
# language's own order, or None for a plain vector), fill ('F'/'C'), and
# optionally 'complex_pair' (interleaved real/imag read as two strided reads).

def parse_block(lang, text, var):
    """Parse one array-reading block for variable `var` from comment-stripped,
    whitespace-squashed text.  Returns (spec, remaining_text)."""
    v = re.escape(var)
    if lang == 'R':
        m = re.match(
            rf'fileid <- file\("{FILE}", ?"rb"\) {v} <- readBin\(con=fileid, what=(\w+\(\)), n={INT}, size={INT}, '
            rf'signed=(TRUE|FALSE), endian="(\w+)"\) (?:{v} <- array\(data={v}, dim=c\({DIMS}\), dimnames=NULL\) )?'
            rf'close\(fileid\) ?', text)
        if not m:
            raise Malformed('R block does not match file()/readBin()/[array()]/close()')
        f, what, n, size, signed, endian, dims = m.groups()
        if signed == 'FALSE' and what == 'integer()' and int(size) not in (1, 2):
            raise Malformed('R: signed=FALSE is only valid for sizes 1 and 2')
        nt = _lookup(R_TYPES, (what, int(size), signed), 'R type')
        if endian not in ('little', 'big'):
            raise Malformed(f'R endian {endian!r}')
        return dict(file=f, numtype=nt, bo=endian, count=int(n), dims=dimlist(dims) if dims else None, fill='F'), \
            text[m.end():]
    if lang == 'matlab':
        m = re.match(rf"fileid = fopen\('{FILE}'\); ", text)
        if not m:
            raise Malformed("Matlab block does not start with fopen('...');")
        f = m.group(1)
        rest = text[m.end():]
        readpat = (rf"(?:fread\(fileid, (?:{INT}|\[{DIMS}\]), '\*(\w+)',(?: ?{INT},)? ?'([\w-]+)'\)"
                   rf"|reshape\(fread\(fileid, {INT}, '\*(\w+)',(?: ?{INT},)? ?'([\w-]+)'\), \[{DIMS}\]\))")

        def read(mm, off):
            g = mm.groups()[off:off + 9]
            if g[0] is not None or g[1] is not None:      # plain fread
                count = int(g[0]) if g[0] else None
                dims = dimlist(g[1]) if g[1] else None
                return count, dims, g[2], g[3], g[4]
            return int(g[5]), dimlist(g[9 - 1 + 0]) if False else None, g[6], g[7], g[8]
        # complex form: two strided reads
        mc = re.match(rf"re = {readpat}; fseek\(fileid, {INT}, 'bof'\); im = {readpat}; fclose\(fileid\); "
                      rf"{v} = complex\(re, im\); ?", rest)
        if mc:
            g = mc.groups()
            r1 = _matlab_read(g[0:10])
            seek = int(g[10])
            r2 = _matlab_read(g[11:21])
            if r1 != r2:
                raise Malformed('Matlab complex: real and imaginary reads differ')
            count, dims, tok, skip, mf = r1
            nt = _lookup(MATLAB_TYPES, tok, 'Matlab precision')
            size = decoder.TYPES[nt][1]
            if skip is None or skip != size or seek != size or nt not in ('float32', 'float64'):
                raise WrongDenotation(f'Matlab complex read with skip={skip}, fseek={seek}, component {nt}')
            cnt = count if count is not None else int(np.prod(dims))
            return dict(file=f, numtype={'float32': 'complex64', 'float64': 'complex128'}[nt],
                        bo=_lookup(MATLAB_ENDIAN, mf, 'Matlab machine format'), count=cnt,
                        dims=dims if dims and len(dims) > 1 else None, fill='F'), rest[mc.end():]
        m2 = re.match(rf"{v} = {readpat}; (?:{v} = half\.typecast\({v}\); )?fclose\(fileid\); ?", rest)
        if not m2:
            raise Malformed('Matlab block does not match fread / reshape(fread) / [half.typecast] / fclose')
        count, dims, tok, skip, mf = _matlab_read(m2.groups()[0:10])
        if skip is not None:
            raise WrongDenotation('Matlab: skip given for a non-complex read')
        nt = _lookup(MATLAB_TYPES, tok, 'Matlab precision')
        if 'half.typecast' in m2.group(0):
            if nt != 'uint16':
                raise WrongDenotation('half.typecast of a non-uint16 read')
            nt = 'float16'
        cnt = count if count is not None else int(np.prod(dims))
        return dict(file=f, numtype=nt, bo=_lookup(MATLAB_ENDIAN, mf, 'Matlab machine format'), count=cnt,
                    dims=dims if dims and len(dims) > 1 else None, fill='F'), rest[m2.end():]
    if lang == 'scilab':
        m = re.match(rf'fileid = mopen\("{FILE}", ?"rb"\); {v} = (mgeti?)\({INT}, ?"(\w+?)([lb])", ?fileid\); '
                     rf'(?:{v} = matrix\({v}, ?\[{DIMS}\]\); )?mclose\(fileid\); ?', text)
        if not m:
            raise Malformed('Scilab block does not match mopen/mget[i]/[matrix]/mclose')
        f, func, n, tok, e, dims = m.groups()
        nt = _lookup(SCILAB_TYPES, (func, tok), 'Scilab type')
        spec = dict(file=f, numtype=nt, bo={'l': 'little', 'b': 'big'}[e], count=int(n),
                    dims=dimlist(dims) if dims else None, fill='F')
        rest = text[m.end():]
        mc = re.match(rf'{v} = complex\(squeeze\({v}\(1((?:,:)*)\)\),squeeze\({v}\(2((?:,:)*)\)\)\); ?', rest)
        mm = re.match(rf'{v} = complex\(matrix\({v}\(1((?:,:)*)\), ?\[{DIMS}\]\),matrix\({v}\(2((?:,:)*)\), ?\[{DIMS}\]\)\); ?', rest)
        for m_, form in ((mc, 'squeeze'), (mm, 'matrix')):
            if not m_:
                continue
            g = m_.groups()
            colons1, colons2 = (g[0], g[1]) if form == 'squeeze' else (g[0], g[2])
            if colons1 != colons2 or spec['dims'] is None or spec['dims'][0] != 2 \
                    or len(colons1) // 2 != len(spec['dims']) - 1 or nt not in ('float32', 'float64'):
                raise WrongDenotation('Scilab complex: leading dimension must be 2 and one ":" per remaining dimension')
            if form == 'matrix':
                if g[1] != g[3] or dimlist(g[1]) != spec['dims'][1:]:
                    raise WrongDenotation(f'Scilab complex: parts reshaped to {g[1]} / {g[3]}, remaining dimensions are {spec["dims"][1:]}')
            spec['scilab_complex'] = form
            rest = rest[m_.end():]
            break
        return spec, rest
    if lang in ('julia_ver0', 'julia_ver1', 'julia'):
        m = re.match(rf'fileid = open\("{FILE}", ?"r"\); {v} = map\((\w+), ?(?:read\(fileid, ?([\w{{}}]+), ?\({DIMS},?\)\)'
                     rf'|read!\(fileid, ?Array\{{([\w{{}}]+)\}}\(undef, ?{DIMS}\)\))\); close\(fileid\); ?', text)
        if not m:
            raise Malformed('Julia block does not match open/map(read|read!)/close')
        f, conv, t0, d0, t1, d1 = m.groups()
        if lang == 'julia_ver0' and t0 is None or lang in ('julia_ver1', 'julia') and t1 is None:
            raise Malformed(f'{lang}: wrong read form for this Julia version')
        nt = _lookup(JULIA_TYPES, t0 or t1, 'Julia type')
        dims = dimlist(d0 or d1)
        return dict(file=f, numtype=nt, bo=_lookup(JULIA_ENDIAN, conv, 'Julia byte-order function'),
                    count=int(np.prod(dims)), dims=dims if len(dims) > 1 else None, fill='F'), text[m.end():]
    if lang == 'idl':
        m = re.match(rf'{v} = read_binary\("{FILE}", ?data_type={INT}, ?data_dims=\[{DIMS}\], ?endian="(\w+)"\) ?', text)
        if not m:
            raise Malformed('IDL block does not match read_binary(...)')
        f, code, dims, e = m.groups()
        nt = _lookup(IDL_TYPES, int(code), 'IDL type code')
        if e not in ('little', 'big'):
            raise Malformed(f'IDL endian {e!r}')
        dims = dimlist(dims)
        return dict(file=f, numtype=nt, bo=e, count=int(np.prod(dims)), dims=dims if len(dims) > 1 else None,
                    fill='F'), text[m.end():]
    if lang == 'mathematica':
        m = re.match(rf'{v} = BinaryReadList\["{FILE}", ?"(\w+)", ?ByteOrdering ?-> ?([+-]?1)\]; '
                     rf'{v} = ArrayReshape\[{v}, ?\{{{DIMS}\}}\]; ?', text)
        if not m:
            raise Malformed('Mathematica block does not match BinaryReadList/ArrayReshape')
        f, tok, e, dims = m.groups()
        dims = dimlist(dims)
        return dict(file=f, numtype=_lookup(MMA_TYPES, tok, 'Mathematica type'), bo=_lookup(MMA_ENDIAN, e, 'ByteOrdering'),
                    count=None, dims=dims, fill='C'), text[m.end():]
    if lang == 'maple':
        m = re.match(rf'{v} := FileTools\[Binary\]\[Read\]\("{FILE}", ?(\w+\[\d\]), ?byteorder=(\w+), ?output=Array\); '
                     rf'FileTools\[Binary\]\[Close\]\("{FILE}"\); ?(?:{v} := ArrayTools\[Reshape\]\({v}, ?\[{DIMS}\]\); ?)?', text)
        if not m:
            raise Malformed('Maple block does not match FileTools[Binary][Read]/[Close]/[ArrayTools[Reshape]]')
        f, tok, e, f2, dims = m.groups()
        if f2 != f:
            raise Malformed('Maple: Close names another file than Read')
        if e not in ('little', 'big'):
            raise Malformed(f'Maple byteorder {e!r}')
        return dict(file=f, numtype=_lookup(MAPLE_TYPES, tok, 'Maple type'), bo=e, count=None,
                    dims=dimlist(dims) if dims else None, fill='F'), text[m.end():]
    raise ValueError(lang)


def _matlab_read(g):
    """g = the 10 groups of one readpat occurrence."""
    cnt, dims, tok, skip, mf, rcnt, rtok, rskip, rmf, rdims = g
    if tok is not None:
        return (int(cnt) if cnt else None, dimlist(dims) if dims else None, tok, int(skip) if skip else None, mf)
    return (int(rcnt), dimlist(rdims), rtok, int(rskip) if rskip else None, rmf)


# --------------------------------------------------------------- evaluation

def evaluate(spec, resolve):
    """Execute a parsed read block against the file system.  `resolve(token)`
    maps the file token of the program to a real path.  Returns the array as
    the target language would hold it (its own axis order)."""
    path = resolve(spec['file'])
    raw = Path(path).read_bytes()
    kind, size, _ = decoder.TYPES[spec['numtype']]
    if spec.get('scilab_complex'):
        pass
    if len(raw) % size:
        raise WrongDenotation(f'file length {len(raw)} is not a multiple of the {size}-byte element the code reads')
    data = np.frombuffer(raw, dtype=np.dtype(f"{decoder.ORDERS[spec['bo']]}{kind}{size}"))
    count = spec['count'] if spec['count'] is not None else data.size
    if count != data.size:
        raise WrongDenotation(f'the code reads {count} elements, the file holds {data.size} of that type')
    if spec['dims'] is not None:
        if int(np.prod(spec['dims'])) != count:
            raise WrongDenotation(f'dimensions {spec["dims"]} do not hold {count} elements')
        out = data.reshape(spec['dims'], order=spec['fill'])
    else:
        out = data
    if spec.get('scilab_complex'):
        re_, im_ = out[0, ...], out[1, ...]
        ct = {'float32': 'complex64', 'float64': 'complex128'}[spec['numtype']]
        out = (re_.astype(ct) + 1j * im_.astype(ct)).astype(np.dtype(ct).newbyteorder(decoder.ORDERS[spec['bo']]))
        if spec['scilab_complex'] == 'squeeze' and out.ndim > 1:
            out = np.squeeze(out)                            # Scilab's squeeze() drops every singleton dimension
            if out.ndim == 0:
                out = out.reshape(1)
    return out


def parse_array_program(lang, code, var='a'):
    text = squash(strip_comments(lang, code))
    spec, rest = parse_block(lang, text, var)
    if rest.strip():
        raise Malformed(f'unexpected trailing text {rest[:60]!r}')
    return spec


# ---------------------------------------------------------- ragged accessors
ORD = {'first': 0, 'second': 1, 'third': 2}
EXPR = r'i([\[\(]{1,2})(\w+),(\w+)[\]\)]{1,2}\s*([+-]\s*\d+)?'


def _off(s):
    return int(s.replace(' ', '')) if s else 0


def parse_ragged_program(lang, code):
    """-> dict(ispec, vspec, accessor, example) for a foreign-language ragged program."""
    ex = re.search(r'example to (?:read|get) (?:the )?(\w+) \(k=(\d+)\)', code)
    text = squash(strip_comments(lang, code))
    blang = 'julia_ver1' if lang == 'julia' else lang
    ispec, rest = parse_block(blang, text, 'i')
    vspec, rest = parse_block(blang, rest, 'v')
    acc = {}
    if lang == 'matlab':
        m = re.match(rf'getsubarray = @\(k\) v\(((?::,)*){EXPR} ?: ?{EXPR}\); sa = getsubarray\((\d+)\); ?$', rest)
        if not m:
            raise Malformed(f'Matlab accessor/example do not match the template: {rest[:120]!r}')
        g = m.groups()
        acc = dict(nph=len(g[0]) // 2, s=(g[1], g[2], g[3], _off(g[4])), e=(g[5], g[6], g[7], _off(g[8])),
                   origin=1, inclusive=True, iaxes='(2,n)', paren='(')
        call = int(g[9])
    elif lang == 'scilab':
        m = re.match(rf'deff\("sa = getsubarray\(k\)", ?"sa = v\(((?::,)*){EXPR} ?: ?{EXPR}\)"\) '
                     rf'sa = getsubarray\((\d+)\); ?$', rest)
        if not m:
            raise Malformed(f'Scilab accessor/example do not match the template: {rest[:120]!r}')
        g = m.groups()
        acc = dict(nph=len(g[0]) // 2, s=(g[1], g[2], g[3], _off(g[4])), e=(g[5], g[6], g[7], _off(g[8])),
                   origin=1, inclusive=True, iaxes='(2,n)', paren='(')
        call = int(g[9])
    elif lang == 'julia':
        m = re.match(rf'function getsubarray\(k\) starti = {EXPR} endi = {EXPR} v\[((?::,)*)starti:endi\] end '
                     rf'sa = getsubarray\((\d+)\) ?$', rest)
        if not m:
            raise Malformed(f'Julia accessor/example do not match the template: {rest[:120]!r}')
        g = m.groups()
        acc = dict(nph=len(g[8]) // 2, s=(g[0], g[1], g[2], _off(g[3])), e=(g[4], g[5], g[6], _off(g[7])),
                   origin=1, inclusive=True, iaxes='(2,n)', paren='[')
        call = int(g[9])
    elif lang == 'R':
        m = re.match(rf'getsubarray <- function\(k\) ?\{{ starti <- {EXPR} endi <- {EXPR} if \(starti > endi\) \{{ '
                     rf'return \((c\(\)|array\(numeric\(\), ?c\({DIMS}\)\))\) \}} else \{{ return \(v\[(,*)starti:endi\]\) \}} \}} '
                     rf'sa (?:=|<-) getsubarray\((\d+)\) ?$', rest)
        if not m:
            raise Malformed(f'R accessor/example do not match the template: {rest[:140]!r}')
        g = m.groups()
        acc = dict(nph=len(g[10]), s=(g[0], g[1], g[2], _off(g[3])), e=(g[4], g[5], g[6], _off(g[7])),
                   origin=1, inclusive=True, iaxes='(2,n)', paren='[',
                   empty_dims=dimlist(g[9]) if g[9] else None, empty_guard=True)
        call = int(g[11])
    elif lang == 'idl':
        m = re.match(rf'k = (\d+) IF {EXPR} EQ {EXPR} THEN sa=\[\] ELSE sa=v\[((?:\*,)*){EXPR} ?: ?{EXPR}\] ?$', rest)
        if not m:
            raise Malformed(f'IDL accessor/example do not match the template: {rest[:140]!r}')
        g = m.groups()
        acc = dict(nph=len(g[9]) // 2, s=(g[10], g[11], g[12], _off(g[13])), e=(g[14], g[15], g[16], _off(g[17])),
                   origin=0, inclusive=True, iaxes='(2,n)', paren='[',
                   guard=((g[1], g[2], g[3], _off(g[4])), (g[5], g[6], g[7], _off(g[8]))))
        call = int(g[0])
    elif lang == 'mathematica':
        m = re.match(r'getsubarray\[k_\?IntegerQ\] := Module\[\{l\}, l = k; starti = i\[\[(\w+),(\w+)\]\]\s*([+-]\s*\d+)?; '
                     r'endi = i\[\[(\w+),(\w+)\]\]\s*([+-]\s*\d+)?; v\[\[starti;;endi\]\]\] sa = getsubarray\[(\d+)\] ?$', rest)
        if not m:
            raise Malformed(f'Mathematica accessor/example do not match the template: {rest[:140]!r}')
        g = m.groups()
        acc = dict(nph=0, s=('[[', g[0], g[1], _off(g[2])), e=('[[', g[3], g[4], _off(g[5])), origin=1, inclusive=True,
                   iaxes='(n,2)', paren='[[', kvar='l')
        call = int(g[6])
    elif lang == 'maple':
        m = re.match(rf'getsubarray := proc ?\(k::integer\);? v\(((?:\.\.,)*) ?{EXPR} ?\.\. ?{EXPR}\); end proc; '
                     rf'sa (:?=) getsubarray\((\d+)\); ?$', rest)
        if not m:
            raise Malformed(f'Maple accessor/example do not match the template: {rest[:140]!r}')
        g = m.groups()
        if g[9] != ':=':
            raise Malformed("Maple example uses '=' (an equation, binds nothing) instead of ':='")
        acc = dict(nph=len(g[0]) // 3, s=(g[1], g[2], g[3], _off(g[4])), e=(g[5], g[6], g[7], _off(g[8])),
                   origin=1, inclusive=True, iaxes='(2,n)', paren='(')
        call = int(g[10])
    else:
        raise ValueError(lang)
    if not ex:
        raise Malformed('no "example to read <ordinal> (k=K) subarray" statement')
    return dict(ispec=ispec, vspec=vspec, acc=acc, ordinal=ex.group(1), stated_k=int(ex.group(2)), call_k=call)


def eval_accessor(acc, I, V, k, atom_rank):
    """Evaluate the accessor for language index k.  I and V are the index and
    values arrays as the language holds them.  Returns an ndarray in the
    language's axis order (the varying axis is last for column-major languages,
    first for Mathematica)."""
    kvar = acc.get('kvar', 'k')

    def idx(expr):
        br, a, b, off = expr
        if br != acc['paren']:
            raise WrongDenotation(f'index array accessed with {br!r}, language uses {acc["paren"]!r}')
        pos = []
        for tok in (a, b):
            if tok == kvar:
                pos.append(k - acc['origin'])
            elif tok.isdigit():
                pos.append(int(tok) - acc['origin'])
            else:
                raise Malformed(f'unknown token {tok!r} in index expression')
        if any(p < 0 for p in pos):
            raise WrongDenotation(f'index {pos} below the language\'s index origin')
        try:
            return int(I[pos[0], pos[1]]) + off
        except IndexError:
            raise WrongDenotation(f'index expression out of the bounds of i {I.shape}')

    if acc['iaxes'] != '(n,2)' and acc['nph'] != atom_rank:    # row-major Part[] needs no placeholders
        raise WrongDenotation(f'{acc["nph"]} leading placeholders for a values array with {atom_rank} atom dimensions')
    if 'guard' in acc and idx(acc['guard'][0]) == idx(acc['guard'][1]):
        return None                      # IDL: sa = []
    s, e = idx(acc['s']), idx(acc['e'])
    if acc.get('empty_guard') and s > e:
        return ('R-empty', acc['empty_dims'])
    lo = s - acc['origin']
    hi = e - acc['origin'] + (1 if acc['inclusive'] else 0)
    if lo < 0:
        raise WrongDenotation(f'start {s} below the index origin')
    n = V.shape[0] if acc['iaxes'] == '(n,2)' else V.shape[-1]
    if hi > n:
        raise WrongDenotation(f'end {e} beyond the values array ({n})')
    if hi < lo:
        if hi == lo - 1 or True:
            hi = lo                      # empty range
    return V[lo:hi] if acc['iaxes'] == '(n,2)' else V[..., lo:hi]
