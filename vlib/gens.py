"""Generators for dtypes, layouts, shapes and values.  Deterministic given a
random.Random instance; nothing here imports darr."""
import numpy as np

T13 = ['int8', 'int16', 'int32', 'int64', 'uint8', 'uint16', 'uint32',
       'uint64', 'float16', 'float32', 'float64', 'complex64', 'complex128']
BO = ['little', 'big']
BOCHAR = {'little': '<', 'big': '>'}
INDEXTYPES = ['int8', 'uint8', 'int16', 'uint16', 'int32', 'uint32', 'int64']
LAYOUTS = ['C', 'F', 'strided', 'negstride', 'transposed', 'broadcast']


def dt(numtype, bo='little'):
    return np.dtype(numtype).newbyteorder(BOCHAR[bo])


def bo_of(dtype):
    """'little' / 'big' of a dtype, decided without darr."""
    import sys
    b = np.dtype(dtype).byteorder
    if b == '<':
        return 'little'
    if b == '>':
        return 'big'
    return sys.byteorder  # '=' and '|'


def nprng(rng):
    return np.random.default_rng(rng.getrandbits(64))


def random_values(rng, dtype, shape):
    """Random bit patterns of `dtype` (so NaN payloads, -0.0, subnormals, inf
    and integer extremes occur), C-contiguous, exact dtype incl. byte order."""
    dtype = np.dtype(dtype)
    n = int(np.prod(shape)) if len(shape) else 1
    g = nprng(rng)
    raw = g.integers(0, 256, size=n * dtype.itemsize, dtype=np.uint8)
    a = raw.view(dtype.newbyteorder('=')).copy()
    if n:
        specials = special_values(dtype)
        for k in range(min(n, max(1, n // 4))):
            if rng.random() < 0.5:
                a[rng.randrange(n)] = specials[rng.randrange(len(specials))]
    return a.astype(dtype).reshape(shape)


def special_values(dtype):
    dtype = np.dtype(dtype)
    k = dtype.kind
    if k in 'iu':
        ii = np.iinfo(dtype)
        return [ii.min, ii.max, 0, 1] + ([-1] if k == 'i' else [])
    if k == 'f':
        fi = np.finfo(dtype)
        return [0.0, -0.0, np.inf, -np.inf, np.nan, float(fi.max),
                float(fi.smallest_subnormal), 1.5]
    fi = np.finfo(dtype)
    return [complex(0.0, -0.0), complex(np.nan, 1), complex(np.inf, -np.inf),
            complex(-0.0, float(fi.max)), 1 + 2j]


def distinct_values(rng, dtype, shape):
    """Pairwise distinct, finite, ordinary values (for permutation visibility)."""
    dtype = np.dtype(dtype)
    n = int(np.prod(shape))
    k = dtype.kind
    if k in 'iu':
        ii = np.iinfo(dtype)
        span = int(ii.max) - int(ii.min)
        if span + 1 >= n and span < 2 ** 20:
            pool = list(range(int(ii.min), int(ii.max) + 1))
            rng.shuffle(pool)
            vals = pool[:n] if len(pool) >= n else [pool[i % len(pool)] for i in range(n)]
        elif span + 1 < n:
            vals = [int(ii.min) + (i % (span + 1)) for i in range(n)]
        else:
            s = set()
            while len(s) < n:
                s.add(rng.randint(int(ii.min) + 1, int(ii.max)))  # avoid R's NA
            vals = list(s)
            rng.shuffle(vals)
        return np.array(vals, dtype=dtype).reshape(shape)
    if k == 'f':
        base = np.arange(1, n + 1, dtype='float64')
        if dtype.itemsize == 2:
            vals = (base % 2000) * 0.5 - 500.25
        else:
            vals = base * 1.25 - n / 2 + 0.125
        perm = list(range(n))
        rng.shuffle(perm)
        return vals[perm].astype(dtype).reshape(shape)
    re = np.arange(1, n + 1, dtype='float64') * 0.5 - n / 3
    im = -np.arange(1, n + 1, dtype='float64') * 0.25 + 7
    perm = list(range(n))
    rng.shuffle(perm)
    return (re[perm] + 1j * im[perm]).astype(dtype).reshape(shape)


def safe_source(rng, src_dtype, dst_dtype, shape):
    """Values of src_dtype whose cast to dst_dtype NumPy defines exactly."""
    src, dst = np.dtype(src_dtype), np.dtype(dst_dtype)
    n = int(np.prod(shape))
    if src == dst:
        return random_values(rng, src, shape)
    if dst.kind in 'iu' or src.kind in 'iu':
        # small non-negative integers are representable in all 13 types
        vals = [rng.randrange(0, 100) for _ in range(n)]
        return np.array(vals, dtype='int64').astype(src).reshape(shape)
    if src.kind == 'c' and dst.kind == 'f':
        raise ValueError('complex -> float not generated (discards data)')
    g = nprng(rng)
    vals = g.standard_normal(n) * 100
    for i in range(n):
        if rng.random() < 0.2:
            vals[i] = rng.choice([0.0, -0.0, np.inf, -np.inf, np.nan, 1e-3])
    if src.kind == 'c':
        vals = vals + 1j * g.standard_normal(n)
    return vals.astype(src).reshape(shape)


def other_dtype(rng, dtype):
    """A dtype different from `dtype` (type and/or byte order) from which a
    defined cast exists."""
    dtype = np.dtype(dtype)
    while True:
        nt = rng.choice(T13)
        bo = rng.choice(BO)
        d = dt(nt, bo)
        if d == dtype:
            continue
        if d.kind == 'c' and dtype.kind != 'c':
            continue
        return d


def relayout(a, layout, rng=None):
    """Return an array equal in value to `a` with the requested memory layout."""
    a = np.ascontiguousarray(a)
    if layout == 'C':
        return a
    if layout == 'F':
        return np.asfortranarray(a)
    if layout == 'strided':
        big = np.empty(tuple(2 * s for s in a.shape), dtype=a.dtype)
        view = big[tuple(slice(None, None, 2) for _ in a.shape)]
        view[...] = a
        return view
    if layout == 'negstride':
        rev = a[::-1].copy()
        return rev[::-1]
    if layout == 'transposed':
        t = np.ascontiguousarray(a.T)
        return t.T
    raise ValueError(layout)


def broadcast_view(rng, dtype, shape):
    """Read-only broadcast view (stride 0 on the first axis)."""
    row = random_values(rng, dtype, shape[1:] if len(shape) > 1 else ())
    return np.broadcast_to(row, shape)


def nested(a):
    return a.tolist()
