"""One shard of a check: executes cases[shard::nshards] and writes a JSON
summary.  Started by vlib.run as a subprocess (never multiprocessing.Pool)."""
import hashlib
import importlib
import itertools
import json
import os
import random
import sys
import time
import traceback
from collections import Counter
from pathlib import Path

from .common import REPO, Scratch, Result, import_darr, jsonable, case_hash


class Env:
    def __init__(self, pid, tier, seed, shard):
        self.pid, self.tier, self.seed, self.shard = pid, tier, seed, shard
        self.darr = import_darr()
        self.scratch = Scratch()
        self.reach = set()

    def rng(self, *key):
        return random.Random(f'{self.pid}:{self.seed}:' +
                             ':'.join(str(k) for k in key))


def install_reach(env):
    """PY_START monitor restricted to code under REPO/darr; each code object
    reports once (DISABLE afterwards), so the overhead is negligible."""
    mon = getattr(sys, 'monitoring', None)
    if mon is None:
        return
    prefix = str(REPO / 'darr') + os.sep
    tool = 4
    try:
        mon.use_tool_id(tool, 'darrverif-reach')
    except ValueError:
        return

    def on_start(code, offset):
        fn = code.co_filename
        if fn.startswith(prefix):
            env.reach.add(f'{fn[len(prefix):-3]}:{code.co_qualname}')
        return mon.DISABLE

    mon.register_callback(tool, mon.events.PY_START, on_start)
    mon.set_events(tool, mon.events.PY_START)


def sighash(s):
    return int.from_bytes(hashlib.blake2b(str(s).encode(),
                                          digest_size=8).digest(), 'big')


def main(argv):
    pid, tier, seed, shard, nshards, outfile = argv
    seed, shard, nshards = int(seed), int(shard), int(nshards)
    t0 = time.time()
    out = {'shard': shard, 'evaluations': 0, 'sigs': [], 'counts': {},
           'dims': {}, 'fails': {}, 'failcount': {}, 'samples': [],
           'harness_errors': [], 'reach': [], 'ncases': 0}
    try:
        env = Env(pid, tier, seed, shard)
        install_reach(env)
        mod = importlib.import_module(f'vlib.props.{pid.lower()}')
        if hasattr(mod, 'setup'):
            mod.setup(env)
        sigs = set()
        counts = Counter()
        dims = {}
        fails = {}
        failcount = Counter()
        samples = []
        srng = random.Random(f'samples:{seed}:{shard}')
        budget = getattr(mod, 'TIME_BUDGET', {}).get(tier)
        gen = mod.cases(tier, seed)
        n = 0
        for case in itertools.islice(gen, shard, None, nshards):
            if budget is not None and time.time() - t0 > budget:
                counts['budget_stop'] += 1
                break
            n += 1
            try:
                res = mod.run_case(case, env)
            except Exception:
                out['harness_errors'].append(
                    {'case': jsonable(case),
                     'traceback': traceback.format_exc()[-3000:]})
                if len(out['harness_errors']) > 5:
                    break
                continue
            out['evaluations'] += getattr(res, 'evals', None) or 1
            if res.nontrivial and res.sig is not None:
                if isinstance(res.sig, (set, frozenset)):
                    sigs.update(sighash(s) for s in res.sig)
                else:
                    sigs.add(sighash(res.sig))
            counts.update(res.counts)
            for k, v in res.dims.items():
                dims.setdefault(k, set()).update(v)
            for f in res.fails:
                failcount[f['mech']] += 1
                lst = fails.setdefault(f['mech'], [])
                if len(lst) < 3:
                    lst.append({'case': jsonable(case), 'msg': f['msg'],
                                'witness': f['witness']})
            if len(samples) < 2:
                samples.append(jsonable(case))
            elif srng.random() < 0.002 and len(samples) < 6:
                samples.append(jsonable(case))
        if hasattr(mod, 'teardown'):
            mod.teardown(env)
        out['ncases'] = n
        out['sigs'] = sorted(sigs)
        out['counts'] = dict(counts)
        out['dims'] = {k: sorted(v, key=str) for k, v in dims.items()}
        out['fails'] = fails
        out['failcount'] = dict(failcount)
        out['samples'] = samples
        out['reach'] = sorted(env.reach)
    except Exception:
        out['harness_errors'].append({'case': None,
                                      'traceback': traceback.format_exc()[-3000:]})
    out['wall_s'] = time.time() - t0
    tmp = outfile + '.tmp'
    with open(tmp, 'w') as f:
        json.dump(out, f, default=lambda o: o.item() if hasattr(o, 'item') and getattr(o, 'ndim', 1) == 0 else repr(o))
    os.replace(tmp, outfile)


if __name__ == '__main__':
    main(sys.argv[1:])
