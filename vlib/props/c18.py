"""C18 — inconsistent or invalid array descriptions are rejected at open time."""
import json
import os
import shutil

import numpy as np

from .. import decoder, gens
from ..common import Result
from ..monitors import snapshot, snapdiff

PID = 'C18'
LEVEL = 'fault_enumeration'
RULE = ('every single-field corruption of a valid descriptor (file missing/empty/non-JSON/non-dict; each required key '
        'removed, retyped, or set to each invalid token class; numtype swapped for every type of different item size; '
        'data file length changed by every amount from -all to +2 items incl. non-multiples of the item size; shape '
        'changed to shapes of different product) x array kinds {1-D, N-D, empty first axis, values/ and indices/ of a '
        'ragged array} x consumers {Array / RaggedArray constructor and darr.open in modes r and r+, delete by path, truncate by path}; '
        'each (corruption, consumer) pair on a fresh copy - and, for one base, on a directory this process has already opened, '
        'corrupted in place with the modification time preserved; distinct by (kind, corruption, consumer); all are non-trivial')
EXHAUSTIVE = True
EXHAUSTIVE_PART = 'the enumerated single-field corruption catalogue x array kinds x consumers'
ASSUMPTIONS = ['consistent-but-different descriptors (same item size, same element count) are valid descriptions, not corruptions',
               'darrobject is required by darr.open() only; an empty shape list [] is not judged']
ANCHORS = ['array:Array._read_arraydescr', 'array:Array._check_arrayinfoconsistency', 'numtype:arrayinfotodtype',
           'datadir:DataDir.read_jsondict', 'array:delete_array', 'array:truncate_array',
           'raggedarray:delete_raggedarray', 'raggedarray:truncate_raggedarray']
REQUIRED = ['mon.open_rejected', 'mon.bypath_typeerror', 'mon.tree_unchanged']
MIN_NONTRIVIAL = {'quick': 8000, 'thorough': 40000}

KINDS = ['1d', 'nd', 'empty', 'ragged-values', 'ragged-indices']
SENTINEL = '__REMOVE__'


def base_params(tier):
    if tier == 'quick':
        return [('int32', 'little'), ('float64', 'big'), ('uint8', 'little'), ('complex64', 'big'),
                ('float16', 'little'), ('int64', 'big')]
    return [(t, b) for t in gens.T13 for b in gens.BO]


def corruptions(numtype, shape):
    """Catalogue of (name, class, action) for an array dir with this numtype/shape."""
    itemsize = decoder.TYPES[numtype][1]
    nbytes = decoder.prod(shape) * itemsize
    out = []
    for name, content in [('missing', None), ('empty', b''), ('truncated-json', b'{"numtype": '),
                          ('json-list', b'[]'), ('json-number', b'3'), ('json-null', b'null'),
                          ('json-string', b'"int32"'), ('binary-garbage', b'\xff\xfe\x00{}'),
                          ('trailing-garbage', 'APPEND:}}'), ('json-list-of-pairs', 'PAIRS:'),
                          ('json-list-of-keys', 'KEYS:')]:
        out.append((f'descr-file:{name}', 'descriptor-file', ('file', content)))
    for key in ('numtype', 'byteorder', 'shape', 'arrayorder', 'darrversion'):
        out.append((f'{key}:removed', 'key-removed', ('key', key, SENTINEL)))
        for tname, tv in [('null', None), ('int', 3), ('list', [1]), ('dict', {'a': 1}), ('bool', True)]:
            if key == 'shape' and tname == 'list':
                continue  # [1] is a well-typed shape; covered by the shape-product corruptions
            cls = 'key-retyped' if key != 'darrversion' else 'darrversion-retyped'
            out.append((f'{key}:retyped-{tname}', cls, ('key', key, tv)))
    for tok in ['int128', 'bool', '<i4', 'Int32', '', 'float', 'int', 'float128', 'str', 'f8', 'i4', 'i8', 'double',
                'single', 'B', 'b', 'u1', 'complex', 'intp', 'half', 'f2', 'c8', 'c16', 'longlong', 'uint', '>i4', '=f8',
                'short', 'e', 'd', 'q', 'object', 'V4', 'S4', 'float_', 'Float64']:
        out.append((f'numtype:token-{tok!r}', 'invalid-token', ('key', 'numtype', tok)))
    for tok in ['middle', 'Little', '<', '', 'native', 'LITTLE', '=']:
        out.append((f'byteorder:token-{tok!r}', 'invalid-token', ('key', 'byteorder', tok)))
    for tok in ['c', 'X', '', 'f', 'A', 'K', 'CF']:
        out.append((f'arrayorder:token-{tok!r}', 'invalid-token', ('key', 'arrayorder', tok)))
    shp = list(shape)
    badshapes = {
        'as-int': shp[0], 'as-str': 'x'.join(map(str, shp)), 'floats': [float(x) for x in shp],
        'strings': [str(x) for x in shp], 'nested': [shp], 'negative-first': [-x if i == 0 and x else -1 if i == 0 else x for i, x in enumerate(shp)],
        'float-fraction': [x + 0.5 for x in shp], 'null-elem': [None] + shp[1:],
        'all-negative': [-x if x else -1 for x in shp],
    }
    for n, v in badshapes.items():
        out.append((f'shape:{n}', 'invalid-shape', ('key', 'shape', v)))
    for nt, (k, sz, _) in decoder.TYPES.items():
        if sz != itemsize and nbytes > 0:
            out.append((f'numtype:swapped-{nt}', 'itemsize-swap', ('key', 'numtype', nt)))
    deltas = sorted(set(list(range(-nbytes, 0)) + list(range(1, 2 * itemsize + 1)) + [nbytes, 4096]) - {0})
    if len(deltas) > 60:   # keep every amount near 0 and near -all, stride the middle
        mid = [d for d in deltas if -nbytes + 2 * itemsize < d < -2 * itemsize]
        keep = set(deltas) - set(mid) | set(mid[::max(1, len(mid) // 20)])
        deltas = sorted(keep)
    for dl in deltas:
        cls = 'file-too-short' if dl < 0 else 'file-too-long'
        out.append((f'datafile:{dl:+d}-bytes', cls, ('size', dl)))
    out.append(('datafile:missing', 'datafile-missing', ('size', None)))
    seen = set()
    cand = []
    for i in range(len(shp)):
        for v in (shp[i] + 1, shp[i] - 1, 0, shp[i] * 2, shp[i] + 7):
            s = shp[:i] + [v] + shp[i + 1:]
            cand.append(s)
    cand += [shp + [2], shp[:-1] if len(shp) > 1 else shp + [3], [decoder.prod(shp) + 1], shp[::-1] + [2]]
    for s in cand:
        if all(x >= 0 for x in s) and decoder.prod(s) != decoder.prod(shp) and tuple(s) not in seen:
            seen.add(tuple(s))
            out.append((f'shape:changed-{s}', 'shape-product', ('key', 'shape', s)))
    return out


TOP_CORR = [('top-descr:missing', ('file', None)), ('top-descr:json-list', ('file', b'[]')),
            ('top-descr:empty', ('file', b'')), ('top-descr:darrobject-removed', ('key', 'darrobject', SENTINEL)),
            ('top-descr:darrobject-unknown', ('key', 'darrobject', 'Matrix')),
            ('top-descr:darrobject-null', ('key', 'darrobject', None))]

_catalogue_cache = {}


def catalogue(kind, nt, bo):
    key = (kind, nt, bo)
    if key not in _catalogue_cache:
        if kind == '1d':
            c = corruptions(nt, (5,))
        elif kind == 'nd':
            c = corruptions(nt, (2, 3))
        elif kind == 'empty':
            c = corruptions(nt, (0, 2))
        elif kind == 'ragged-values':
            c = corruptions(nt, (5, 2))
        else:
            c = corruptions('int64', (3, 2))
        _catalogue_cache[key] = c
    return _catalogue_cache[key]


def consumers(kind):
    if kind.startswith('ragged'):
        return ['RaggedArray', 'RaggedArray:r+', 'open', 'open:r+', 'delete', 'truncate']
    return ['Array', 'Array:r+', 'open', 'open:r+', 'delete', 'truncate']


def cases(tier, seed):
    for nt, bo in base_params(tier):
        for kind in KINDS:
            for ci in range(len(catalogue(kind, nt, bo))):
                for cons in consumers(kind):
                    yield {'kind': kind, 'numtype': nt, 'bo': bo, 'ci': ci, 'consumer': cons}
                    if (nt, bo) == base_params(tier)[0] and not cons.endswith('r+'):
                        # the same process has already opened the (then valid) directory; the corruption is made in
                        # place and keeps the modification time, as an editor or `cp -p` / `rsync -t` would
                        yield {'kind': kind, 'numtype': nt, 'bo': bo, 'ci': ci, 'consumer': cons, 'warm': True}
            tops = TOP_CORR if kind in ('1d', 'ragged-values') else []
            for ti in range(len(tops)):
                yield {'kind': kind, 'numtype': nt, 'bo': bo, 'top': ti, 'consumer': 'open'}
    yield {'kind': 'control'}


_bases = {}


def base_dir(env, kind, nt, bo):
    """A pristine array of the given kind (made once per worker)."""
    key = (kind, nt, bo)
    if key not in _bases:
        D = env.darr
        root = env.scratch.new('base')
        rng = env.rng('base', kind, nt, bo)
        dtype = gens.dt(nt, bo)
        if kind == '1d':
            D.asarray(root / 'a', gens.distinct_values(rng, dtype, (5,)))
        elif kind == 'nd':
            D.asarray(root / 'a', gens.distinct_values(rng, dtype, (2, 3)))
        elif kind == 'empty':
            D.asarray(root / 'a', np.zeros((0, 2), dtype=dtype))
        else:
            vals = gens.distinct_values(rng, dtype, (5, 2))
            D.asraggedarray(root / 'a', [vals[0:2], vals[2:2], vals[2:5]])
        _bases[key] = root / 'a'
    return _bases[key]


def apply(target, action):
    """Apply one corruption to the array directory `target`."""
    dj = target / 'arraydescription.json'
    df = target / 'arrayvalues.bin'
    if action[0] == 'file':
        content = action[1]
        if content is None:
            dj.unlink()
        elif isinstance(content, str) and content.startswith('APPEND:'):
            dj.write_bytes(dj.read_bytes() + content[7:].encode())
        elif isinstance(content, str) and content.startswith('PAIRS:'):
            # the same information, but as a JSON list of [key, value] pairs: not a dictionary
            dj.write_text(json.dumps([[k_, v_] for k_, v_ in json.loads(dj.read_text()).items()]))
        elif isinstance(content, str) and content.startswith('KEYS:'):
            dj.write_text(json.dumps(sorted(json.loads(dj.read_text()))))
        else:
            dj.write_bytes(content)
    elif action[0] == 'key':
        j = json.loads(dj.read_text())
        if action[2] == SENTINEL:
            j.pop(action[1], None)
        else:
            j[action[1]] = action[2]
        dj.write_text(json.dumps(j, indent=4, sort_keys=True))
    elif action[0] == 'size':
        if action[1] is None:
            df.unlink()
        else:
            raw = df.read_bytes()
            n = len(raw) + action[1]
            df.write_bytes(raw[:n] if n <= len(raw) else raw + b'\x01' * (n - len(raw)))


def run_case(case, env):
    res = Result()
    D = env.darr
    if case['kind'] == 'control':
        # the uncorrupted bases must open (otherwise every rejection below is vacuous)
        for kind in KINDS:
            b = base_dir(env, kind, 'int32', 'little')
            res.count('mon.control_opens')
            try:
                D.open(b)
                (D.RaggedArray if kind.startswith('ragged') else D.Array)(b)
            except Exception as e:
                res.fail('control:pristine-base-does-not-open', f'{kind}: {type(e).__name__}: {e}')
        res.nontrivial = True
        res.sig = 'control'
        return res
    kind, nt, bo, cons = case['kind'], case['numtype'], case['bo'], case['consumer']
    base = base_dir(env, kind, nt, bo)
    if 'top' in case:
        name, action = TOP_CORR[case['top']]
        cls = 'top-descriptor'
        sub = ''
    else:
        name, cls, action = catalogue(kind, nt, bo)[case['ci']]
        sub = {'ragged-values': 'values', 'ragged-indices': 'indices'}.get(kind, '')
    d = env.scratch.new('k')
    try:
        work = d / 'arr'
        shutil.copytree(base, work)
        if case.get('warm'):
            try:
                D.open(work)
                (D.RaggedArray if kind.startswith('ragged') else D.Array)(work)[0 if kind != 'empty' else slice(None)]
                # ... and still holds a live read-write handle object on it while the consumer runs
                keep_alive = (D.RaggedArray if kind.startswith('ragged') else D.Array)(work, accessmode='r+')
                res.count('obs.live_rplus_handle_during_consumer')
            except Exception:
                keep_alive = None
            times = {p_: (p_.stat().st_atime_ns, p_.stat().st_mtime_ns) for p_ in work.rglob('*') if p_.is_file()}
        apply(work / sub if sub else work, action)
        if case.get('warm'):
            for p_, t_ in times.items():
                if p_.exists():
                    os.utime(p_, ns=t_)
        before = snapshot(work)
        res.dim('corruption_class', cls)
        res.dim('kind', kind)
        res.dim('consumer', cons)
        ragged = kind.startswith('ragged')
        raised = None
        try:
            if cons.startswith('Array'):
                obj = D.Array(work, accessmode='r+' if cons.endswith('r+') else 'r')
            elif cons.startswith('RaggedArray'):
                obj = D.RaggedArray(work, accessmode='r+' if cons.endswith('r+') else 'r')
            elif cons.startswith('open'):
                obj = D.open(work, accessmode='r+' if cons.endswith('r+') else 'r')
            elif cons == 'delete':
                (D.delete_raggedarray if ragged else D.delete_array)(str(work))
            else:
                (D.truncate_raggedarray if ragged else D.truncate_array)(work, 1)
        except Exception as e:
            raised = e
        after = snapshot(work)
        tag = f'{kind}:{name}'
        if cons.split(':')[0] in ('Array', 'RaggedArray', 'open'):
            res.count('mon.open_rejected')
            if raised is None:
                what = ''
                try:
                    what = f' -> {type(obj).__name__} shape={getattr(obj, "shape", None)} dtype={getattr(obj, "dtype", None)}'
                except Exception:
                    pass
                res.fail(f'opened:{cons}:{cls}:{name.split(":")[0]}',
                         f'{cons}() opened a corrupted directory ({tag}){what}', corruption=name, kind=kind)
        else:
            res.count('mon.bypath_typeerror')
            if raised is None:
                res.fail(f'bypath-no-raise:{cons}:{cls}', f'{cons} by path accepted a corrupted directory ({tag})',
                         corruption=name, kind=kind, diff=snapdiff(before, after))
            elif not isinstance(raised, TypeError):
                res.fail(f'bypath-wrong-exception:{cons}:{cls}:{type(raised).__name__}',
                         f'{cons} by path raised {type(raised).__name__} instead of TypeError ({tag}): {str(raised)[:150]}',
                         corruption=name, kind=kind)
        res.count('mon.tree_unchanged')
        if after != before:
            res.fail(f'modified:{cons}:{cls}', f'{cons} changed a corrupted directory ({tag}): {snapdiff(before, after)}',
                     corruption=name, kind=kind)
        res.nontrivial = True
        res.sig = repr((kind, nt, bo, name, cons, bool(case.get('warm'))))
        res.dim('warm', 'already opened by this process' if case.get('warm') else 'first open')
        return res
    finally:
        env.scratch.drop(d)
