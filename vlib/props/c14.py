"""C14 — chunk iteration yields exactly the specified frames.

Monitor: independent closed form (DESIGN Appendix B) evaluated for every
parameter tuple up to a bound, plus an icontract postcondition attached to the
real fit_frames as bound inside darr.array (so the calls Darr itself makes are
checked too)."""
import itertools
import numpy as np

from .. import hist_stale
from ..common import Result

PID = 'C14'
LEVEL = 'exploration'
RULE = ('exhaustive enumeration of (n, chunklen, stepsize, start, end, '
        'include_remainder) for n <= N (quick 9, thorough 14) for iterindices, '
        'n <= 6/9 for iterchunks, the full small grid for fit_frames, all '
        'out-of-range tuples over a small grid, random large fit_frames '
        'arguments; histories in which one Array object is iterated with the same arguments before and after truncate/append; a tuple is non-trivial when it yields >= 1 frame or must '
        'be rejected; distinct by the full parameter tuple')
EXHAUSTIVE = True
EXHAUSTIVE_PART = 'all valid parameter tuples with n <= N; all invalid tuples on the small grid'
ASSUMPTIONS = ['closed form of Appendix B transcribes the statement',
               'arrays are 1-D float64/int16 and 2-D; frame arithmetic does not depend on dtype']
ANCHORS = ['utils:fit_frames', 'array:Array.iterindices', 'array:Array.iterchunks']
REQUIRED = ['mon.iterindices_valid', 'mon.iterchunks_valid', 'mon.fit_valid',
            'mon.invalid_tuples', 'mon.contract_fit_frames', 'mon.history_calls', 'mon.large_chunks']
MIN_NONTRIVIAL = {'quick': 20000, 'thorough': 200000}

BOUND = {'quick': (9, 6), 'thorough': (14, 9)}


def closed(T, c, s):
    K = 0 if c > T else (T - c) // s + 1
    covered = (K - 1) * s + c if K > 0 else 0
    return K, covered, T - covered


def frames(b, e, c, s, rem):
    K, covered, r = closed(e - b, c, s)
    out = [(b + k * s, b + k * s + c) for k in range(K)]
    if rem and r > 0 and b + K * s < e:
        out.append((b + K * s, e))
    return out


def cases(tier, seed):
    N, NC = BOUND[tier]
    for T in range(0, N + 3):
        yield {'kind': 'fit', 'T': T, 'N': N}
    for n in range(1, N + 1):
        for c in range(1, n + 3):
            yield {'kind': 'indices', 'n': n, 'c': c}
    for n in range(1, NC + 1):
        for shape in ((n,), (n, 2)):
            yield {'kind': 'chunks', 'shape': list(shape)}
    for n in (1, 2, 4):
        yield {'kind': 'invalid', 'n': n}
    for k in range(6):
        yield {'kind': 'history', 'k': k}
    for k in range(6):
        yield {'kind': 'large', 'k': k}
    yield {'kind': 'fitinvalid'}
    # the same calls with NumPy scalars of narrow types as arguments (np.uint8(100) on a 1000-row array ...)
    for tname in ('uint8', 'int8', 'int16', 'uint16', 'int64', 'float32'):
        for n in (300, 1000):
            yield {'kind': 'npscalars', 'type': tname, 'n': n}
    import random
    # chunk iteration through a handle whose array was changed by other means (by path, second handle, re-creation)
    yield from hist_stale.array_cases(random.Random(f'C14:{seed}:stale'), 150 if tier == 'quick' else 2000, seed,
                                      hops=['h:chunks', 'h:chunks', 'h:app', 'h:trunc', 'h:ctxfail'])
    for k in range(16 if tier == 'quick' else 64):
        yield {'kind': 'fitrandom', 'k': k}


_arrays = {}


def _array(env, shape, dtype='float64'):
    key = (tuple(shape), dtype)
    if key not in _arrays:
        d = env.scratch.new('a') / 'arr'
        vals = (np.arange(int(np.prod(shape)), dtype='int64') * 3 + 1)\
            .reshape(shape).astype(dtype)
        _arrays[key] = (env.darr.asarray(d, vals, chunklen=64), vals)
    return _arrays[key]


_contract = {'n': 0, 'bad': []}


def setup(env):
    """Attach the closed-form postcondition to fit_frames as Darr calls it."""
    import darr.array as da
    orig = da.fit_frames
    if getattr(orig, '_verif_wrapped', False):
        return

    def post(totallen, chunklen, result, steplen=None):
        _contract['n'] += 1
        s = chunklen if steplen is None else steplen
        ok = tuple(result) == closed(int(totallen), int(chunklen), int(s))
        if not ok:
            _contract['bad'].append((totallen, chunklen, steplen, result))
        return True   # record, never abort what is being observed

    try:
        import icontract

        class FitFramesPostBroken(Exception):
            pass
        wrapped = icontract.ensure(post, error=FitFramesPostBroken)(orig)
    except ImportError:
        def wrapped(totallen, chunklen, steplen=None):
            r = orig(totallen, chunklen, steplen)
            post(totallen, chunklen, r, steplen)
            return r
    wrapped._verif_wrapped = True
    da.fit_frames = wrapped


def run_case(case, env):
    res = Result()
    res.nontrivial = True
    sigs = set()
    kind = case['kind']
    res.dim('kind', kind)
    if kind == 'npscalars':
        T = getattr(np, case['type'])
        n = case['n']
        a, vals = _array(env, (n,), 'int32')
        sigs = set()
        for (c, st, b, e) in [(100, None, None, None), (100, 50, 3, n - 97), (7, 120, 0, n), (127, 127, 1, 255), (90, 100, 10, 127)]:
            hi = {'uint8': 255, 'int8': 127}.get(case['type'], 10 ** 6)
            if max(c, st or 0) > hi:
                continue
            kw = {'stepsize': None if st is None else T(st)}
            if b is not None and b <= hi:
                kw['startindex'] = T(b)
            if e is not None and e <= hi:
                kw['endindex'] = T(e)
            bb, ee = int(kw.get('startindex', 0)), int(kw.get('endindex', n))
            for rem in (True, False):
                exp = frames(bb, ee, c, c if st is None else st, rem)
                res.count('mon.npscalar_calls')
                try:
                    gi = [(int(x), int(y)) for x, y in a.iterindices(T(c), include_remainder=rem, **kw)]
                    gc = list(a.iterchunks(T(c), include_remainder=rem, **kw))
                except Exception as ex:
                    res.fail(f'npscalar:raised:{type(ex).__name__}', f'iterindices/iterchunks(chunklen=np.{case["type"]}({c}), {kw}) on {n} rows '
                                                                     f'raised {ex!r}', **case)
                    continue
                if gi != exp:
                    res.fail('npscalar:frames-differ', f'iterindices(chunklen=np.{case["type"]}({c}), {kw}, rem={rem}) on {n} rows = {gi[:6]}..., '
                                                       f'expected {exp[:6]}... ({len(gi)} vs {len(exp)} frames)', **case)
                elif len(gc) != len(exp) or any(not np.array_equal(ch, vals[x:y]) for ch, (x, y) in zip(gc, exp)):
                    res.fail('npscalar:chunks-differ', f'iterchunks(chunklen=np.{case["type"]}({c}), {kw}, rem={rem}) on {n} rows: chunks differ '
                                                       f'from a[frame] ({sum(len(x) for x in gc)} rows in {len(gc)} chunks)', **case)
                sigs.add((case['type'], n, c, st, b, e, rem))
        res.sig = {repr(x) for x in sigs}
        res.evals = max(1, len(sigs))
        return res
    if kind == 'stale':
        hist_stale.run_array(env, res, case)
        res.sig = hist_stale.sig_of(case)
        return res
    n0 = _contract['n']
    if kind == 'fit':
        from darr.utils import fit_frames
        T, N = case['T'], case['N']
        for c in range(1, N + 3):
            for s in [None] + list(range(1, N + 3)):
                for asfloat in (False, True):
                    args = (float(T), float(c), None if s is None else float(s)) \
                        if asfloat else (T, c, s)
                    exp = closed(T, c, c if s is None else s)
                    try:
                        got = fit_frames(*args)
                    except Exception as e:
                        res.fail('fit_frames-raised-on-valid', f'fit_frames{args} raised {e!r}',
                                 args=args)
                        continue
                    res.count('mon.fit_valid')
                    sigs.add(('fit', args))
                    if tuple(got) != exp or not all(
                            isinstance(x, (int, np.integer)) and float(x) == int(x) for x in got):
                        res.fail('fit_frames-mismatch',
                                 f'fit_frames{args} = {got}, closed form {exp}',
                                 args=args, got=got, expected=exp)
    elif kind == 'indices':
        n, c = case['n'], case['c']
        a, _ = _array(env, (n,))
        ranges = [(None, None)] + [(b, e) for b in range(0, n) for e in range(b + 1, n + 1)] \
            + [(None, e) for e in range(1, n + 1)] + [(b, None) for b in range(0, n)]
        for s in [None] + list(range(1, n + 3)):
            for b, e in ranges:
                for rem in (True, False):
                    bb = 0 if b is None else b
                    ee = n if e is None else e
                    exp = frames(bb, ee, c, c if s is None else s, rem)
                    try:
                        got = list(a.iterindices(c, stepsize=s, startindex=b,
                                                 endindex=e, include_remainder=rem))
                    except Exception as ex:
                        res.fail('iterindices-raised-on-valid',
                                 f'iterindices(n={n}, c={c}, s={s}, b={b}, e={e}, rem={rem}) raised {ex!r}',
                                 n=n, c=c, s=s, b=b, e=e, rem=rem)
                        continue
                    res.count('mon.iterindices_valid')
                    if exp:
                        sigs.add(('ii', n, c, s, b, e, rem))
                    if [tuple(map(int, f)) for f in got] != exp:
                        res.fail('iterindices-frames-mismatch',
                                 f'iterindices(n={n}, c={c}, s={s}, b={b}, e={e}, rem={rem}) = {got}, expected {exp}',
                                 n=n, c=c, s=s, b=b, e=e, rem=rem, got=got, expected=exp)
    elif kind == 'chunks':
        shape = tuple(case['shape'])
        n = shape[0]
        a, vals = _array(env, shape, ('int16' if shape[0] % 2 else '>i4') if len(shape) == 1 else ('float64' if shape[0] % 2 else '>f4'))
        import mmap
        for c in range(1, n + 3):
            for s in [None] + list(range(1, n + 3)):
                for b, e in [(None, None)] + [(b, e) for b in range(0, n)
                                              for e in range(b + 1, n + 1)]:
                    for rem in (True, False):
                        bb = 0 if b is None else b
                        ee = n if e is None else e
                        exp = frames(bb, ee, c, c if s is None else s, rem)
                        try:
                            # consume step by step and scribble over every chunk after taking a private copy:
                            # chunks are detached copies, so this must influence neither later chunks nor the array
                            got = []
                            for ch in a.iterchunks(c, stepsize=s, startindex=b, endindex=e, include_remainder=rem):
                                got.append(np.array(ch, copy=True))
                                if ch.dtype != vals.dtype:
                                    got[-1] = ch          # keep the offending dtype visible to the comparison below
                                if ch.size and ch.flags.writeable:
                                    ch[...] = 0
                                    res.count('mon.chunk_scribbled')
                        except Exception as ex:
                            res.fail('iterchunks-raised-on-valid',
                                     f'iterchunks(shape={shape}, c={c}, s={s}, b={b}, e={e}, rem={rem}) raised {ex!r}',
                                     shape=shape, c=c, s=s, b=b, e=e, rem=rem)
                            continue
                        res.count('mon.iterchunks_valid')
                        if exp:
                            sigs.add(('ic', shape, c, s, b, e, rem))
                        ok = len(got) == len(exp) and all(
                            g.dtype == vals.dtype and g.shape == vals[f0:f1].shape and
                            g.tobytes() == vals[f0:f1].tobytes()
                            for g, (f0, f1) in zip(got, exp))
                        if not ok:
                            res.fail('iterchunks-values-mismatch',
                                     f'iterchunks(shape={shape}, c={c}, s={s}, b={b}, e={e}, rem={rem}) '
                                     f'yielded {len(got)} chunks, expected frames {exp}',
                                     shape=shape, c=c, s=s, b=b, e=e, rem=rem,
                                     got=[g.tolist() for g in got], expected=exp)
                            continue
                        for g in got:
                            res.count('mon.detached')
                            base = g
                            attached = isinstance(g, np.memmap) or not g.flags.owndata
                            while base is not None and not attached:
                                base = getattr(base, 'base', None)
                                if isinstance(base, (mmap.mmap, np.memmap)):
                                    attached = True
                            if attached:
                                res.fail('iterchunks-chunk-not-detached',
                                         f'chunk of iterchunks(shape={shape}, c={c}) is a view '
                                         f'(owndata={g.flags.owndata}, type={type(g).__name__})',
                                         shape=shape, c=c, s=s)
                                break
                        if (s is None or s == c) and rem and got:
                            res.count('mon.concat_law')
                            cat = np.concatenate(got, axis=0).astype(vals.dtype)   # concatenate returns native byte order
                            if cat.tobytes() != vals[bb:ee].tobytes():
                                res.fail('iterchunks-concatenation-law',
                                         f'chunks with step=chunklen={c} do not concatenate to a[{bb}:{ee}]',
                                         shape=shape, c=c, b=b, e=e)
    elif kind == 'invalid':
        n = case['n']
        a, vals = _array(env, (n,))
        grid = [None, -2, -1] + list(range(0, n + 2))
        for c in (-1, 0, 1, n, n + 1):
            for s in (None, -1, 0, 1, n + 1):
                for b in grid:
                    for e in grid:
                        bb = 0 if b is None else b
                        ee = n if e is None else e
                        valid = c >= 1 and (s is None or s >= 1) and 0 <= bb < ee <= n
                        if valid:
                            continue
                        for meth in ('iterindices', 'iterchunks'):
                            res.count('mon.invalid_tuples')
                            sigs.add(('inv', meth, n, c, s, b, e))
                            try:
                                got = list(getattr(a, meth)(c, stepsize=s, startindex=b, endindex=e))
                            except ValueError:
                                continue
                            except Exception as ex:
                                res.fail(f'{meth}-wrong-exception-class',
                                         f'{meth}(n={n}, c={c}, s={s}, b={b}, e={e}) raised '
                                         f'{type(ex).__name__} instead of ValueError: {ex}',
                                         n=n, c=c, s=s, b=b, e=e)
                                continue
                            why = []
                            if c < 1:
                                why.append('chunklen<1')
                            if s is not None and s < 1:
                                why.append('stepsize<1')
                            if bb < 0:
                                why.append('negative-startindex')
                            if ee < 0:
                                why.append('negative-endindex')
                            if bb >= ee and not (bb < 0 or ee < 0):
                                why.append('start>=end')
                            if ee > n:
                                why.append('end>n')
                            res.fail('out-of-range-accepted:' + '+'.join(why),
                                     f'{meth}(n={n}, chunklen={c}, stepsize={s}, startindex={b}, '
                                     f'endindex={e}) did not raise; returned {str(got)[:120]}',
                                     n=n, c=c, s=s, b=b, e=e)
    elif kind == 'history':
        # the same Array object is iterated with the same arguments before and after its length changes
        D = env.darr
        d = env.scratch.new('hist')
        n0 = 7 + case['k']
        vals = np.arange(n0, dtype='float64') * 2 + 1
        a = D.asarray(d / 'h', vals, accessmode='r+')
        argsets = [(c, s, b, e, rem) for c in (1, 2, 3, 5) for s in (None, 1, 2, 4)
                   for b, e in ((None, None), (1, None), (None, 5), (2, 6), (0, n0)) for rem in (True, False)]
        stages = [('start', None), ('abandon', None), ('truncate', 4 + case['k'] % 3), ('append', 3), ('abandon', None),
                  ('truncate', 2), ('append', 6)]
        for stage, arg in stages:
            if stage == 'abandon':
                # nested users that end abnormally inside a context: an abandoned generator, a failing read
                with a.open_array():
                    for _c in a.iterchunks(2):
                        break
                    try:
                        a[10 ** 6]
                    except IndexError:
                        pass
                continue
            if stage == 'truncate':
                D.truncate_array(a, arg)
                vals = vals[:arg]
            elif stage == 'append':
                extra = np.arange(arg, dtype='float64') + 100 * len(vals)
                a.append(extra)
                vals = np.concatenate([vals, extra])
            n = len(vals)
            for c, s, b, e, rem in argsets:
                bb, ee = 0 if b is None else b, n if e is None else e
                valid = 0 <= bb < ee <= n
                for meth in ('iterindices', 'iterchunks'):
                    res.count('mon.history_calls')
                    sigs.add(('hist', case['k'], stage, meth, c, s, b, e, rem))
                    try:
                        got = list(getattr(a, meth)(c, stepsize=s, startindex=b, endindex=e, include_remainder=rem))
                        err = None
                    except ValueError as ex:
                        got, err = None, ex
                    if not valid:
                        if err is None:
                            res.fail(f'history:out-of-range-accepted-after-{stage}',
                                     f'after {stage} (n={n}) {meth}(c={c}, s={s}, b={b}, e={e}) did not raise', stage=stage, n=n)
                        continue
                    exp = frames(bb, ee, c, c if s is None else s, rem)
                    if err is not None:
                        res.fail(f'history:raised-on-valid-after-{stage}', f'after {stage} (n={n}) {meth}(c={c}, s={s}, b={b}, e={e}) raised {err}',
                                 stage=stage, n=n)
                    elif meth == 'iterindices' and [tuple(map(int, f)) for f in got] != exp:
                        res.fail(f'history:frames-mismatch-after-{stage}',
                                 f'after {stage} (n={n}) iterindices(c={c}, s={s}, b={b}, e={e}, rem={rem}) = {got}, expected {exp}',
                                 stage=stage, n=n)
                    elif meth == 'iterchunks' and (len(got) != len(exp) or any(
                            g.tobytes() != vals[f0:f1].tobytes() for g, (f0, f1) in zip(got, exp))):
                        res.fail(f'history:chunks-mismatch-after-{stage}',
                                 f'after {stage} (n={n}) iterchunks(c={c}, s={s}, b={b}, e={e}, rem={rem}) yields wrong chunks', stage=stage, n=n)
        env.scratch.drop(d)
    elif kind == 'large':
        # iteration ranges of several MB (read-ahead or block-wise implementations must not cut frames)
        D = env.darr
        d = env.scratch.new('large')
        k = case['k']
        if k % 2 == 0:
            vals = (np.arange(5_000_000, dtype='int64') % 251).astype('uint8')
        else:
            vals = (np.arange(1_200_000, dtype='int64') % 1000).astype('>f4').reshape(600_000, 2)
        a = D.asarray(d / 'big', vals)
        n = len(vals)
        for c, s in [(1000, 600), (1000, 1700), (64, 48), (100_000, None), (4096, 4095), (700_001, 350_000)][k % 3::3] + [(1000 + k, 999)]:
            exp = frames(0, n, c, c if s is None else s, True)
            it = a.iterchunks(c, stepsize=s)
            nbad = 0
            for j, (f0, f1) in enumerate(exp):
                try:
                    ch = next(it)
                except StopIteration:
                    nbad = -1
                    break
                res.count('mon.large_chunks')
                if ch.dtype != vals.dtype or ch.shape != vals[f0:f1].shape or ch.tobytes() != vals[f0:f1].tobytes():
                    nbad = j + 1
                    break
            extra = sum(1 for _ in it) if nbad == 0 else 0
            sigs.add(('large', k, c, s))
            if nbad or extra:
                res.fail('iterchunks-large-range-mismatch',
                         f'iterchunks(chunklen={c}, stepsize={s}) over {vals.nbytes} bytes: ' +
                         (f'chunk {nbad - 1} differs from a[frame]' if nbad > 0 else 'too few chunks' if nbad else f'{extra} extra chunks'),
                         c=c, s=s, n=n)
        env.scratch.drop(d)
    elif kind == 'fitinvalid':
        from darr.utils import fit_frames
        bad = [(-1, 1, None), (5, 0, None), (5, -2, None), (5, 2, 0), (5, 2, -1),
               (5.5, 2, None), (5, 1.5, None), (5, 2, 1.5), (-0.5, 1, None),
               (3, 5, 0), (3, 5, -1), (3, 5, 0.5), (0, 1, 0)]
        for T, c, s in bad:
            res.count('mon.invalid_tuples')
            sigs.add(('fitinv', T, c, s))
            try:
                got = fit_frames(T, c, s)
            except ValueError:
                continue
            except Exception as ex:
                res.fail('fit_frames-wrong-exception-class',
                         f'fit_frames({T},{c},{s}) raised {type(ex).__name__}', T=T, c=c, s=s)
                continue
            why = 'steplen-invalid-while-chunklen>totallen' if (
                s is not None and (s <= 0 or s % 1) and c > T and c >= 1 and c % 1 == 0
                and T >= 0 and T % 1 == 0) else 'other'
            res.fail('fit_frames-out-of-range-accepted:' + why,
                     f'fit_frames({T},{c},{s}) did not raise; returned {got}', T=T, c=c, s=s)
    elif kind == 'fitrandom':
        from darr.utils import fit_frames
        rng = env.rng('fitrandom', case['k'])
        for _ in range(2000):
            T = rng.choice([rng.randrange(0, 10**9), rng.randrange(0, 10**4), 2**62 + rng.randrange(1000)])
            c = rng.choice([rng.randrange(1, 10**9), rng.randrange(1, 100), max(1, T - rng.randrange(3))])
            s = rng.choice([None, rng.randrange(1, 10**6), rng.randrange(1, 50), c + rng.randrange(5)])
            exp = closed(T, c, c if s is None else s)
            got = fit_frames(T, c, s)
            res.count('mon.fit_valid')
            sigs.add(('fitr', T, c, s))
            if tuple(got) != exp:
                res.fail('fit_frames-mismatch', f'fit_frames({T},{c},{s}) = {got}, closed form {exp}',
                         T=T, c=c, s=s, got=got, expected=exp)
    res.count('mon.contract_fit_frames', _contract['n'] - n0)
    if _contract['bad']:
        for b in _contract['bad'][:3]:
            res.fail('fit_frames-contract-broken', f'postcondition of fit_frames failed inside Darr: {b}',
                     call=b)
        _contract['bad'].clear()
    res.sig = sigs
    res.evals = max(1, len(sigs))
    return res
