"""Check driver: shards a property's cases over worker subprocesses, merges
what their monitors observed, applies the known-finding filter, writes the
evidence file and replay files, and decides the three-valued verdict.

exit 0  held on everything observed (KNOWN-FINDING lines allowed)
exit 1  violation not listed in known_findings.json (VIOLATION line printed)
exit 2  inconclusive (monitor not reached / too few cases / worker died)
"""
import argparse
import hashlib
import importlib
import json
import os
import shutil
import subprocess
import sys
import tempfile
import time
from collections import Counter
from pathlib import Path

from .common import VERIF, REPO, scratch_base, case_hash

WATCHDOG = {'quick': 1500, 'thorough': 6 * 3600}


def repo_state():
    def git(*a):
        try:
            return subprocess.run(['git', '-C', str(REPO), *a], text=True,
                                  capture_output=True, timeout=30).stdout
        except Exception:
            return ''
    head = git('rev-parse', 'HEAD').strip()
    diff = git('diff', 'HEAD', '--', 'darr')
    return head, hashlib.sha1(diff.encode()).hexdigest()[:12] if diff else 'clean'


def load_known(pid):
    p = VERIF / 'known_findings.json'
    if not p.exists():
        return {}
    data = json.loads(p.read_text())
    known = {}
    for e in data.get('findings', []):
        if e.get('property') == pid and e.get('status') == 'known':
            known[e['mech']] = e
    return known


def replay(pid, path):
    from .worker import Env
    mod = importlib.import_module(f'vlib.props.{pid.lower()}')
    data = json.loads(Path(path).read_text())
    env = Env(pid, data.get('tier', 'quick'), data.get('seed', 0), 0)
    if hasattr(mod, 'setup'):
        mod.setup(env)
    res = mod.run_case(data['case'], env)
    known = load_known(pid)
    bad = [f for f in res.fails if f['mech'] not in known]
    for f in res.fails:
        tag = 'KNOWN-FINDING:' if f['mech'] in known else 'REPRODUCED'
        print(f"{tag} property={pid} mech={f['mech']} {f['msg'][:300]}")
    if bad:
        print(f'VIOLATION property={pid} replay={path}')
        return 1
    print(f'replay of {path}: no unlisted violation reproduced')
    return 0


def main(argv=None):
    ap = argparse.ArgumentParser()
    ap.add_argument('pid')
    ap.add_argument('--tier', default=None, choices=['quick', 'thorough'])
    ap.add_argument('--replay', default=None)
    ap.add_argument('--jobs', type=int, default=None)
    a = ap.parse_args(argv)
    pid = a.pid.upper()
    tier = a.tier or os.environ.get('VERIF_TIER') or 'quick'
    if tier not in ('quick', 'thorough'):
        tier = 'quick'
    try:
        seed = int(os.environ.get('VERIF_SEED', '0'))
    except ValueError:
        seed = 0
    if a.replay:
        return replay(pid, a.replay)

    t0 = time.time()
    mod = importlib.import_module(f'vlib.props.{pid.lower()}')
    jobs = a.jobs or int(os.environ.get('VERIF_JOBS', '0')) or \
        min(16, os.cpu_count() or 1)
    jobs = min(jobs, getattr(mod, 'MAX_JOBS', 16))
    root = tempfile.mkdtemp(prefix=f'darrverif-{os.getpid()}-',
                            dir=scratch_base())
    inconclusive = []
    try:
        procs = []
        for s in range(jobs):
            out = os.path.join(root, f'result{s}.json')
            env = dict(os.environ, VERIF_SCRATCH=os.path.join(root, f'w{s}'))
            p = subprocess.Popen([sys.executable, '-m', 'vlib.worker', pid,
                                  tier, str(seed), str(s), str(jobs), out],
                                 env=env, cwd=str(VERIF))
            procs.append((p, out))
        deadline = t0 + WATCHDOG[tier]
        results = []
        for p, out in procs:
            try:
                p.wait(timeout=max(1, deadline - time.time()))
            except subprocess.TimeoutExpired:
                p.kill()
                p.wait()
                inconclusive.append('worker hit the wall-clock watchdog')
                continue
            if not os.path.exists(out):
                inconclusive.append(f'worker died (status {p.returncode}) '
                                    f'without a result')
                continue
            with open(out) as f:
                results.append(json.load(f))
    finally:
        shutil.rmtree(root, ignore_errors=True)

    evaluations = sum(r['evaluations'] for r in results)
    sigs = set()
    counts = Counter()
    dims = {}
    fails = {}
    failcount = Counter()
    samples = []
    reach = set()
    for r in results:
        sigs.update(r['sigs'])
        counts.update(r['counts'])
        for k, v in r['dims'].items():
            dims.setdefault(k, set()).update(v)
        for m, lst in r['fails'].items():
            fails.setdefault(m, []).extend(lst)
        failcount.update(r['failcount'])
        samples.extend(r['samples'][:2])
        reach.update(r['reach'])
        for he in r['harness_errors']:
            inconclusive.append('harness error: ' + he['traceback'][-1500:])

    # reach / monitor minimums ------------------------------------------------
    soft_missing = []
    for anchor in getattr(mod, 'ANCHORS', []):
        if anchor not in reach:
            name = anchor.split(':')[1].split('.')[-1]
            if name.startswith('_') and not name.startswith('__'):
                # private helpers may be renamed or inlined by a refactoring that keeps the property:
                # their absence is reported in the evidence, but only public entry points gate the verdict
                soft_missing.append(anchor)
            else:
                inconclusive.append(f'anchored function never entered: {anchor}')
    for c in getattr(mod, 'REQUIRED', []):
        if counts.get(c, 0) <= 0:
            inconclusive.append(f'deciding monitor never evaluated: {c}')
    minnt = getattr(mod, 'MIN_NONTRIVIAL', {}).get(tier, 2)
    if len(sigs) < max(2, minnt):
        inconclusive.append(f'only {len(sigs)} distinct non-trivial cases '
                            f'(minimum {minnt})')
    if counts.get('budget_stop'):
        counts['budget_stop'] = counts['budget_stop']

    # known-finding filter ----------------------------------------------------
    known = load_known(pid)
    known_hit = {}
    violations = {}
    for mech, lst in fails.items():
        if mech in known:
            known_hit[mech] = failcount[mech]
        else:
            violations[mech] = lst
    (VERIF / 'replays').mkdir(exist_ok=True)
    vlines = []
    for mech, lst in sorted(violations.items()):
        for item in lst[:2]:
            h = case_hash([mech, item['case']])
            rp = VERIF / 'replays' / f'{pid}-{h}.json'
            rp.write_text(json.dumps(
                {'property': pid, 'tier': tier, 'seed': seed, 'mech': mech,
                 'msg': item['msg'], 'witness': item['witness'],
                 'case': item['case']}, indent=1))
            vlines.append((mech, item['msg'], rp))

    head, diffhash = repo_state()
    exhaustive = getattr(mod, 'EXHAUSTIVE', False)
    if callable(exhaustive):
        exhaustive = bool(exhaustive(tier))
    coverage = {
        'evaluations': int(evaluations),
        'distinct_nontrivial': len(sigs),
        'rule': getattr(mod, 'RULE', ''),
        'samples': samples[:8],
        'exhaustive': bool(exhaustive),
        'exhaustive_part': getattr(mod, 'EXHAUSTIVE_PART', ''),
        'monitor_counts': dict(sorted(counts.items())),
        'dimensions': {k: sorted(v, key=str) if len(v) <= 60 else
                       {'n': len(v), 'first': sorted(v, key=str)[:40]}
                       for k, v in sorted(dims.items())},
        'anchors_entered': sorted(x for x in reach
                                  if x in set(getattr(mod, 'ANCHORS', []))),
        'private_anchors_not_entered': soft_missing,
        'darr_functions_entered': len(reach),
        'known_findings_hit': known_hit,
        'unlisted_violation_mechanisms':
            {m: failcount[m] for m in violations},
        'inconclusive_reasons': inconclusive[:10],
        'workers': len(results),
        'repo_head': head, 'repo_diff': diffhash,
    }
    ev = {
        'property_id': pid, 'tier': tier, 'seed': seed,
        'level': getattr(mod, 'LEVEL', 'exploration'),
        'coverage': coverage,
        'assumptions': getattr(mod, 'ASSUMPTIONS', []),
        'wall_s': round(time.time() - t0, 2),
        'violations': int(sum(failcount[m] for m in violations)),
    }
    evdir = Path(os.environ.get('VERIF_EVIDENCE_DIR') or VERIF / 'evidence')   # override: seeded-change trials only
    evdir.mkdir(parents=True, exist_ok=True)
    (evdir / f'{pid}.json').write_text(
        json.dumps(ev, indent=1, sort_keys=False) + '\n')

    for mech in sorted(known_hit):
        print(f"KNOWN-FINDING: property={pid} {known[mech]['what']} "
              f"[mech={mech}, {known_hit[mech]} cases]")
    print(f'{pid} {tier} seed={seed}: {evaluations} evaluations, '
          f'{len(sigs)} distinct non-trivial, '
          f'{sum(failcount.values())} refuted '
          f'({len(violations)} unlisted mechanisms), '
          f'{ev["wall_s"]} s, repo {head[:8]}/{diffhash}')
    top = ', '.join(f'{k}={v}' for k, v in sorted(counts.items())[:14])
    print(f'  monitors: {top}')
    if vlines:
        for mech, msg, rp in vlines[:12]:
            print(f'  refuted [{mech}]: {msg[:240]}')
            print(f'VIOLATION property={pid} replay={rp}')
        return 1
    if inconclusive:
        seen = set()
        for r in inconclusive:
            if r in seen or len(seen) >= 6:
                continue
            seen.add(r)
            print(f'INCONCLUSIVE property={pid}: {r}')
        return 2
    return 0


if __name__ == '__main__':
    sys.exit(main())
