#!/bin/bash
# usage: tools/sweep.sh <tier> <seed> [ids...]  -- runs checks sequentially, prints one line per check
tier=$1; seed=$2; shift 2
ids=${@:-C01 C02 C03 C04 C05 C06 C07 C08 C09 C10 C11 C12 C13 C14 C15 C16 C17 C18 C19 C20}
for p in $ids; do
  out=$(VERIF_SEED=$seed ./check $p --tier $tier 2>&1); rc=$?
  echo "[$tier seed=$seed] rc=$rc $(echo "$out" | grep -E "^C[0-9]+ (quick|thorough)" | head -1)"
  if [ $rc -ne 0 ]; then echo "$out" | grep -E "refuted \[|INCONCLUSIVE|Traceback|Error" | head -8 | cut -c1-400; fi
done
