"""C08 — README.txt documentation is current after every operation."""
import random

from .. import gens, hist_array, hist_ragged, hist_stale
from ..common import Result

PID = 'C08'
LEVEL = 'exploration'
RULE = ('Array histories (random sequences over 31 op kinds incl. metadata creation/deletion and overwrite=True '
        're-creation, all 26 type/byte-order combinations) and RaggedArray histories (bounded-exhaustive short sequences, '
        'random long ones incl. copy and re-creation, and growth ladders through 4..9 subarrays by append and by '
        'iterappend) with the Readme monitor after every step: README bytes = text Darr generates from a fresh handle on '
        'the current files; independently parsed type / byte order / dimensions / subarray count / listed subarray '
        'dimensions / "..." line agree with the independent decoder; every offered language\'s current readcode() is '
        'contained; metadata.json mentioned iff metadata exist; for ragged arrays also values/ and indices/ READMEs. '
        'Non-trivial = >= 1 successful state change; distinct by (kind, start, types, op sequence)')
EXHAUSTIVE = False
ASSUMPTIONS = ['"the documentation Darr generates" is readcodetxt() evaluated on a freshly opened handle',
               'independent README parsing covers the format statements, not the prose']
ANCHORS = ['array:Array._update_readmetxt', 'array:readcodetxt', 'array:numtypedescriptiontxt',
           'raggedarray:RaggedArray._update_readmetxt', 'raggedarray:readmetxt', 'raggedarray:dimensionstxt',
           'metadata:MetaData.update', 'metadata:MetaData.pop']
REQUIRED = ['mon.readme_array', 'mon.readme_ragged']
MIN_NONTRIVIAL = {'quick': 900, 'thorough': 9000}

COMBOS = [(t, b) for t in gens.T13 for b in gens.BO]


def cases(tier, seed):
    rng = random.Random(f'C08:{seed}')
    allops = hist_array.ALPHABET + hist_array.EXTRA + ['md_set', 'md_pop', 'md_clear', 'recreate', 'md_set']
    for k in range(700 if tier == 'quick' else 8000):
        nt, bo = COMBOS[k % len(COMBOS)]
        start = rng.choice(hist_array.STARTS + [(1,), (4, 3), (2, 3, 1, 2), (11,), (10, 2), (100,)])
        yield {'kind': 'array', 'start': {'shape': list(start), 'numtype': nt, 'bo': bo, 'chunklen': rng.choice([1, 2, 100])},
               'ops': [rng.choice(allops) for _ in range(rng.randint(2, 14))], 'vseed': f'{seed}:{k}',
               'observe': ['every', 'sparse', 'end'][k % 3]}
    # growth ladders: 4 subarrays grown one at a time through 5, 6, 7, 8, 9
    for how in ('app1', 'app3', 'app0', 'iter2', 'itergen'):
        for atom in hist_ragged.ATOMS:
            for k, (nt, bo) in enumerate(COMBOS[::5]):
                yield {'kind': 'ragged', 'start': {'kind': 'as', 'pattern': 'five' if k % 2 else 'two',
                                                   'atom': list(atom), 'numtype': nt, 'bo': bo, 'indextype': 'int64'},
                       'ops': [how] * 6 + ['truncm1', 'truncm1', how, 'trunc1', how], 'vseed': f'{seed}:lad{how}{k}'}
    for c in hist_ragged.history_cases(PID, tier, seed, 200, 3000):
        c['kind'] = 'ragged'
        yield c
    # the array (data or metadata) is changed through a second handle / by path behind a long-lived handle, which then
    # performs an operation that rewrites, or should rewrite, the README
    for c in hist_stale.array_cases(random.Random(f'C08:{seed}:stale'), 300 if tier == 'quick' else 4000, seed):
        c['kind'] = 'stale'
        yield c
    # ... and histories that bring the array back to exactly the state the long-lived handle documented last
    for k, (nt, bo) in enumerate(COMBOS):
        for steps in (['h:app2', 'x:trunc2', 'h:app2'], ['h:app2', 'x:trunc2', 'h:md', 'h:app2'],
                      ['h:md', 'h:app2', 'x:trunc2', 'x:md_clear', 'h:app2', 'h:md']):
            yield {'kind': 'stale', 'numtype': nt, 'bo': bo, 'shape': [[3], [2, 2], [0], [4, 1, 2]][k % 4], 'steps': steps,
                   'vseed': f'{seed}:back{k}', 'chunklen': [1, 2, 100][k % 3]}


def run_case(case, env):
    res = Result()
    if case['kind'] == 'stale':
        hist_stale.run_array(env, res, case, want_readme=True)
        res.sig = hist_stale.sig_of(case)
    elif case['kind'] == 'array':
        hist_array.run(env, res, case, {'readme'})
        res.sig = hist_array.sig_of(case)
    else:
        hist_ragged.run(env, res, case, {'readme'})
        res.sig = hist_ragged.sig_of(case)
    res.dim('kind', case['kind'])
    return res
