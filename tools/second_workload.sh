#!/bin/bash
# Second workload (informative, never decides): the repository's own tests with the monitors attached.
# usage: tools/second_workload.sh [repo-dir]   report: /tmp/second_workload.json
repo=${1:-/repo}
cd "$repo" && PYTHONDONTWRITEBYTECODE=1 PYTHONPATH="$repo:/verif" /venv/bin/python -m pytest -q -p no:cacheprovider -p vlib.pytest_monitors
