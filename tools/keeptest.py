#!/usr/bin/env python3
"""tools/keeptest.py <letter> <k> [check ids]  -- a property-PRESERVING change from /tmp/seed/K<letter>/seed_out/patch<k>.diff:
applies it to a scratch worktree, runs the repository tests, then every quick check with DARR_REPO pointing at it.
Any non-zero check is a candidate FALSE ALARM (or the change is not preserving after all) and is printed for triage.
Files the change under /verif/seeded/keep-<letter><k>/."""
import json, os, shutil, subprocess, sys, re
from pathlib import Path
L, k = sys.argv[1], sys.argv[2]
ids = sys.argv[3:] or [f'C{i:02d}' for i in range(1, 21)]
src = Path(os.environ.get('KEEP_SRC', f'/tmp/seed/K{L}/seed_out'))
patch, meta = src / f'patch{k}.diff', src / f'meta{k}.json'
env = dict(os.environ, PYTHONDONTWRITEBYTECODE='1')
def sh(c, **kw): return subprocess.run(c, shell=True, text=True, capture_output=True, env=env, **kw)
wt = f'/tmp/keeprun_{L}{k}'
sh(f'git -C /repo worktree remove --force {wt}')
assert sh(f'git -C /repo worktree add -q --detach {wt} HEAD').returncode == 0
res = {}
try:
    ap = sh(f'git -C {wt} apply {patch}')
    if ap.returncode:
        ap = sh(f'git -C {wt} apply -3 {patch}')
    if ap.returncode:
        print('PATCH DOES NOT APPLY', ap.stderr[:200]); sys.exit(3)
    t = sh(f'cd {wt} && /venv/bin/python -m pytest -q -p no:cacheprovider 2>&1 | tail -1', timeout=1800)
    tests_ok = '187 passed' in t.stdout and 'failed' not in t.stdout
    print('tests:', t.stdout.strip()[-60:])
    for c in ids:
        r = subprocess.run(f'cd /verif && VERIF_EVIDENCE_DIR=/tmp/seedrun_evidence ./check {c} --tier quick', shell=True, text=True,
                           capture_output=True, env=dict(env, DARR_REPO=wt), timeout=3600)
        line = next((l.strip() for l in r.stdout.splitlines() if 'refuted [' in l or 'INCONCLUSIVE' in l), '')
        res[c] = {'rc': r.returncode, 'first': line[:500]}
        if r.returncode:
            print(f'  ALARM {c}: rc={r.returncode} {line[:300]}')
finally:
    sh(f'git -C /repo worktree remove --force {wt}')
dst = Path(f'/verif/seeded/keep-{L}{k}')
dst.mkdir(parents=True, exist_ok=True)
shutil.copy(patch, dst / 'patch.diff')
m = json.loads(meta.read_text()) if meta.exists() else {}
m.update({'kind': 'property-preserving refactoring (false-alarm trial)', 'tests_pass_confirmed': tests_ok,
          'checks': res, 'alarms': [c for c, v in res.items() if v['rc']]})
(dst / 'meta.json').write_text(json.dumps(m, indent=1))
print(f'keep-{L}{k}: alarms {m["alarms"]}')
