"""Shared plumbing: repository location, scratch space, result containers."""
import atexit
import hashlib
import json
import os
import shutil
import sys
import tempfile
from collections import Counter
from pathlib import Path

VERIF = Path(__file__).resolve().parent.parent
REPO = Path(os.environ.get('DARR_REPO', '/repo')).resolve()


def import_darr():
    """Import darr from the working tree of REPO (never from site-packages)."""
    rp = str(REPO)
    if rp in sys.path:
        sys.path.remove(rp)
    sys.path.insert(0, rp)
    import warnings
    warnings.simplefilter('ignore')
    import darr
    f = Path(darr.__file__).resolve()
    if REPO not in f.parents:
        raise RuntimeError(f'darr imported from {f}, not from {REPO}')
    return darr


# ---------------------------------------------------------------- scratch ---

def scratch_base():
    for cand in ('/dev/shm', tempfile.gettempdir()):
        if os.path.isdir(cand) and os.access(cand, os.W_OK):
            return cand
    return tempfile.gettempdir()


class Scratch:
    """A private directory under tmpfs; every case gets a fresh sub-directory
    that is removed when the case is over."""

    def __init__(self, root=None):
        if root is None:
            root = os.environ.get('VERIF_SCRATCH')
        if root is None:
            root = tempfile.mkdtemp(prefix=f'darrverif-{os.getpid()}-',
                                    dir=scratch_base())
            atexit.register(shutil.rmtree, root, True)
        self.root = Path(root)
        self.root.mkdir(parents=True, exist_ok=True)
        self._n = 0
        self._pid = os.getpid()

    def new(self, tag='c'):
        """Fresh, existing, empty directory."""
        self._n += 1
        p = self.root / f'{tag}{os.getpid()}_{self._n}'
        p.mkdir()
        return p

    @staticmethod
    def drop(p):
        shutil.rmtree(p, ignore_errors=True)


# ---------------------------------------------------------------- results ---

class Result:
    """What one executed case reports back to the runner."""

    __slots__ = ('sig', 'nontrivial', 'fails', 'counts', 'dims', 'evals')

    def __init__(self):
        self.sig = None          # signature for the distinct count
        self.nontrivial = False
        self.fails = []          # [{'mech':…, 'msg':…, 'witness':…}]
        self.counts = Counter()  # monitor evaluation counters
        self.dims = {}           # coverage dimension -> set of values
        self.evals = 1           # executions this case stands for (batches)

    def fail(self, mech, msg, **witness):
        self.fails.append({'mech': mech, 'msg': str(msg)[:2000],
                           'witness': jsonable(witness)})

    def dim(self, name, value):
        self.dims.setdefault(name, set()).add(
            value if isinstance(value, (str, int)) else str(value))

    def count(self, name, n=1):
        self.counts[name] += n


def jsonable(x, depth=0):
    """Best-effort conversion of a witness into JSON-serialisable form."""
    import numpy as np
    if depth > 6:
        return repr(x)[:200]
    if isinstance(x, (str, int, bool)) or x is None:
        return x
    if isinstance(x, float):
        return x if x == x and abs(x) != float('inf') else repr(x)
    if isinstance(x, bytes):
        return {'bytes_hex': x[:256].hex(), 'len': len(x)}
    if isinstance(x, np.ndarray):
        return {'ndarray': repr(x)[:600], 'dtype': x.dtype.str,
                'shape': list(x.shape)}
    if isinstance(x, np.generic):
        return repr(x)
    if isinstance(x, dict):
        return {str(k): jsonable(v, depth + 1) for k, v in x.items()}
    if isinstance(x, (list, tuple, set, frozenset)):
        return [jsonable(v, depth + 1) for v in x]
    if isinstance(x, BaseException):
        return f'{type(x).__name__}: {x}'[:600]
    return repr(x)[:600]


def case_hash(case):
    return hashlib.sha1(json.dumps(case, sort_keys=True, default=repr)
                        .encode()).hexdigest()[:12]


def spelled_path(d, name, vseed):
    """(path handed to Darr, physical path used by the observers).  One history in five addresses its array
    through a spelling that only the operating system resolves correctly: <symlink>/../<name>."""
    import os
    import zlib
    if zlib.crc32(str(vseed).encode()) % 5:
        return d / name, d / name
    (d / 'store' / 'projA').mkdir(parents=True)
    (d / 'work').mkdir()
    os.symlink(d / 'store' / 'projA', d / 'work' / 'current')
    return d / 'work' / 'current' / '..' / name, d / 'store' / name
