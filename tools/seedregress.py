#!/usr/bin/env python3
"""tools/seedregress.py [ID-k ...]  -- re-run every kept seeded change (or the named ones) against the CURRENT quick
checks (own property + every check that caught it before) in a scratch worktree (DARR_REPO), and rewrite
detected_by / checks in its meta.json.  Prints one line per seed; exits 1 if a seed is no longer detected."""
import json, os, subprocess, sys
from pathlib import Path

env = dict(os.environ, PYTHONDONTWRITEBYTECODE='1')
def sh(cmd, **kw):
    return subprocess.run(cmd, shell=True, text=True, capture_output=True, env=env, **kw)

names = sys.argv[1:] or sorted(p.name for p in Path('/verif/seeded').iterdir() if p.is_dir() and not p.name.startswith('keep'))
bad = []
for name in names:
    d = Path('/verif/seeded') / name
    m = json.loads((d / 'meta.json').read_text())
    ID = name.split('-')[0]
    checks = [ID] + [c for c in m.get('detected_by', []) if c != ID]
    checks += [c for c in os.environ.get('SEED_CHECKS', '').split() if c not in checks]
    if m.get('not_portable'):
        print(name, 'SKIPPED (not portable to the current tree):', m['not_portable'][:100]); continue
    rw = f'/tmp/seedreg_{name}'
    sh(f'git -C /repo worktree remove --force {rw}')
    if sh(f'git -C /repo worktree add -q --detach {rw} HEAD').returncode:
        print(name, 'WORKTREE FAILED'); bad.append(name); continue
    try:
        if sh(f'git -C {rw} apply {d}/patch.diff').returncode and sh(f'git -C {rw} apply --3way {d}/patch.diff').returncode:
            print(name, 'PATCH NO LONGER APPLIES'); bad.append(name); continue
        caught = {}
        for c in checks:
            r = subprocess.run(f'cd /verif && VERIF_EVIDENCE_DIR=/tmp/seedrun_evidence ./check {c} --tier quick', shell=True, text=True,
                               capture_output=True, env=dict(env, DARR_REPO=rw), timeout=3600)
            line = next((l.strip() for l in r.stdout.splitlines() if 'refuted [' in l or 'INCONCLUSIVE' in l), '')
            caught[c] = {'rc': r.returncode, 'violation_line': 'VIOLATION property=' in r.stdout, 'first': line[:400]}
            if r.returncode == 1 and caught[c]['violation_line'] and c == ID:
                pass
        det = [c for c, v in caught.items() if v['rc'] == 1 and v['violation_line']]
        m['checks'] = caught
        m['detected_by'] = det
        m['regressed_at'] = sh('git -C /verif rev-parse --short HEAD').stdout.strip()
        (d / 'meta.json').write_text(json.dumps(m, indent=1))
        if not det:
            # does the change still break the property on the current (repaired) tree?  Its own demonstration decides.
            r = subprocess.run(f'/venv/bin/python {d}/demo.py {rw}', shell=True, text=True, capture_output=True, env=env, timeout=1800)
            if r.returncode == 0:
                m['obsolete'] = {'since_repo_head': sh('git -C /repo rev-parse --short HEAD').stdout.strip(),
                                 'why': 'with this patch applied to the current (repaired) tree the seed\'s own demonstration '
                                        'exits 0: the change no longer breaks the property'}
                (d / 'meta.json').write_text(json.dumps(m, indent=1))
                print(name, 'no longer breaks the property on the current tree (own demo exits 0); undetected as it should be')
                continue
        m.pop('obsolete', None)
        (d / 'meta.json').write_text(json.dumps(m, indent=1))
        print(name, 'detected by', det if det else 'NONE')
        if not det:
            bad.append(name)
    finally:
        sh(f'git -C /repo worktree remove --force {rw}')
print('undetected:', bad)
sys.exit(1 if bad else 0)
