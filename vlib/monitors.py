"""Monitors shared by the property modules.

DiskState   independent decode + live handle + fresh handle vs. reference
Readme      README.txt is what Darr generates from a fresh handle, agrees with
            the independent decode, contains the current read code
TreeSnapshot byte-exact recursive snapshot of a directory
FdMap       open descriptors / memory maps of this process under a path
"""
import os
import re
from pathlib import Path

import numpy as np

from . import decoder


# ------------------------------------------------------------------ equality

def same_dtype(a, b):
    a, b = np.dtype(a), np.dtype(b)
    return a == b and a.itemsize == b.itemsize


def bits_equal(x, y):
    """dtype (incl. byte order), shape and every element bit pattern equal."""
    return (isinstance(x, np.ndarray) and isinstance(y, np.ndarray)
            and same_dtype(x.dtype, y.dtype) and x.shape == y.shape
            and x.tobytes() == y.tobytes())


def describe(x):
    if isinstance(x, np.ndarray):
        return f'{x.dtype.str}{list(x.shape)}:{x.tolist()!r}'[:300]
    return repr(x)[:300]


# ------------------------------------------------------------- TreeSnapshot

def snapshot(path):
    """{relative path: (kind, content)} for everything at/below `path`.
    kind: 'f' bytes, 'd' None, 'l' link target, 'absent'."""
    path = Path(path)
    out = {}
    if path.is_symlink():
        return {'.': ('l', os.readlink(path))}
    if not path.exists():
        return {'.': ('absent', None)}
    if path.is_file():
        return {'.': ('f', path.read_bytes())}
    out['.'] = ('d', None)
    for root, dirs, files in os.walk(path, followlinks=False):
        for name in dirs + files:
            p = Path(root) / name
            rel = str(p.relative_to(path))
            if p.is_symlink():
                out[rel] = ('l', os.readlink(p))
            elif p.is_dir():
                out[rel] = ('d', None)
            else:
                out[rel] = ('f', p.read_bytes())
    return out


def snapdiff(a, b):
    """Human-readable list of differences between two snapshots."""
    d = []
    for k in sorted(set(a) | set(b)):
        if k not in a:
            d.append(f'+{k}')
        elif k not in b:
            d.append(f'-{k}')
        elif a[k] != b[k]:
            if a[k][0] == b[k][0] == 'f':
                d.append(f'~{k} ({len(a[k][1])}->{len(b[k][1])} bytes)')
            else:
                d.append(f'~{k} ({a[k][0]}->{b[k][0]})')
    return d


# -------------------------------------------------------------------- FdMap

def fdmap(path):
    """Open fds and memory mappings of this process that refer to files at or
    under `path`."""
    p = os.path.realpath(str(path))
    found = []
    try:
        for fd in os.listdir('/proc/self/fd'):
            try:
                t = os.readlink(f'/proc/self/fd/{fd}')
            except OSError:
                continue
            if t == p or t.startswith(p + os.sep) or \
                    t.replace(' (deleted)', '').startswith(p + os.sep):
                found.append(f'fd{fd}:{t}')
        with open('/proc/self/maps') as f:
            for line in f:
                parts = line.split(None, 5)
                if len(parts) == 6:
                    t = parts[5].strip()
                    if t.startswith(p + os.sep) or t == p:
                        found.append(f'map:{t}')
    except OSError:
        pass
    return found


# ---------------------------------------------------------------- DiskState

def array_state(a):
    """Observable state of a Darr Array handle."""
    return {'len': len(a), 'shape': tuple(a.shape), 'size': a.size,
            'nbytes': a.nbytes, 'dtype': a.dtype, 'values': a[:]}


def compare_handle(res, tag, a, ref, mechprefix):
    """Compare a handle's observable state with the reference ndarray."""
    try:
        st = array_state(a)
    except Exception as e:
        res.fail(f'{mechprefix}:{tag}-handle-unreadable',
                 f'{tag} handle: reading state raised {type(e).__name__}: {e}')
        return False
    exp = {'len': ref.shape[0], 'shape': tuple(ref.shape), 'size': int(ref.size),
           'nbytes': int(ref.size) * ref.dtype.itemsize}
    for k, v in exp.items():
        if st[k] != v:
            res.fail(f'{mechprefix}:{tag}-{k}', f'{tag} handle {k}={st[k]!r}, reference {v!r}')
            return False
    if not same_dtype(st['dtype'], ref.dtype):
        res.fail(f'{mechprefix}:{tag}-dtype',
                 f'{tag} handle dtype {np.dtype(st["dtype"]).str}, reference {ref.dtype.str}')
        return False
    if not bits_equal(st['values'], ref):
        res.fail(f'{mechprefix}:{tag}-values',
                 f'{tag} handle contents {describe(st["values"])} != reference {describe(ref)}')
        return False
    return True


def check_array_disk(res, darr, path, live, ref, want=('ifd', 'live', 'fresh'),
                     mechprefix='state'):
    """DiskState monitor for an Array.  `ref` is the reference ndarray."""
    ok = True
    if 'ifd' in want:
        res.count('mon.ifd_array')
        try:
            dec, j = decoder.decode_array(path)
        except decoder.FormatError as e:
            res.fail(f'{mechprefix}:ifd-format-error', f'independent decoder: {e}')
            return False
        if not bits_equal(np.ascontiguousarray(dec), ref):
            res.fail(f'{mechprefix}:ifd-vs-reference',
                     f'files decode to {describe(dec)}, reference {describe(ref)}')
            ok = False
    if 'live' in want and live is not None:
        res.count('mon.live_handle')
        ok = compare_handle(res, 'live', live, ref, mechprefix) and ok
    if 'fresh' in want:
        res.count('mon.fresh_handle')
        try:
            fresh = darr.Array(path)
        except Exception as e:
            res.fail(f'{mechprefix}:fresh-open-failed',
                     f'darr.Array(path) raised {type(e).__name__}: {e}')
            return False
        ok = compare_handle(res, 'fresh', fresh, ref, mechprefix) and ok
    return ok


# ------------------------------------------------------------------- Readme

_BITS = re.compile(r'Numeric type:\s*(\d+)\s*[-‐]\s*bit\s+(.*)')


def parse_array_readme(txt):
    """Independent parse of the format description part of an Array README."""
    out = {}
    m = _BITS.search(txt)
    if m:
        bits, rest = int(m.group(1)), m.group(2).lower()
        if 'unsigned' in rest:
            out['numtype'] = f'uint{bits}'
        elif 'signed integer' in rest:
            out['numtype'] = f'int{bits}'
        elif 'complex' in rest:
            out['numtype'] = f'complex{bits}'
        elif 'float' in rest:
            out['numtype'] = f'float{bits}'
    m = re.search(r'Byte order:\s*(\w+)', txt)
    if m:
        out['byteorder'] = m.group(1)
    m = re.search(r'Array length:\s*(\d+)', txt)
    if m:
        out['shape'] = (int(m.group(1)),)
    m = re.search(r'Array dimensions:\s*\(([^)]*)\)', txt)
    if m:
        out['shape'] = tuple(int(x) for x in m.group(1).replace(' ', '').split(',') if x)
    out['mentions_metadata'] = "'metadata.json'" in txt
    return out


ARRAY_LANGS = ['darr', 'idl', 'julia_ver0', 'julia_ver1', 'mathematica', 'matlab',
               'maple', 'numpy', 'numpymemmap', 'python', 'R', 'scilab']


def check_array_readme(res, darr, path, mechprefix='readme'):
    """Readme monitor for one Array directory."""
    res.count('mon.readme_array')
    path = Path(path)
    rp = path / 'README.txt'
    if not rp.is_file():
        res.fail(f'{mechprefix}:missing', f'{rp} does not exist')
        return False
    txt = rp.read_bytes().decode('utf-8', errors='replace')
    try:
        fresh = darr.Array(path)
        import darr.array as da
        regen = da.readcodetxt(fresh)
    except Exception as e:
        res.fail(f'{mechprefix}:cannot-regenerate', f'{type(e).__name__}: {e}')
        return False
    if txt != regen:
        # locate first differing line for the witness
        la, lb = txt.splitlines(), regen.splitlines()
        i = next((k for k, (x, y) in enumerate(zip(la, lb)) if x != y), min(len(la), len(lb)))
        res.fail(f'{mechprefix}:stale',
                 f'README.txt differs from text generated from a fresh handle at line {i}: '
                 f'on disk {la[i] if i < len(la) else "<eof>"!r} vs current {lb[i] if i < len(lb) else "<eof>"!r}')
        return False
    try:
        dec, j = decoder.decode_array(path)
    except decoder.FormatError as e:
        res.fail(f'{mechprefix}:undecodable-array', str(e))
        return False
    p = parse_array_readme(txt)
    if p.get('numtype') != j['numtype'] or p.get('byteorder') != j['byteorder'] \
            or p.get('shape') != tuple(j['shape']):
        res.fail(f'{mechprefix}:states-wrong-format',
                 f'README states {p}, files say {j["numtype"]}/{j["byteorder"]}/{j["shape"]}')
        return False
    mp = path / 'metadata.json'
    has_md = False
    if mp.is_file():
        import json
        try:
            has_md = bool(json.loads(mp.read_text()))
        except Exception:
            has_md = True
    if p['mentions_metadata'] != has_md:
        res.fail(f'{mechprefix}:metadata-mention',
                 f'README mentions metadata.json: {p["mentions_metadata"]}; metadata present: {has_md}')
        return False
    for lang in ARRAY_LANGS:
        code = fresh.readcode(lang)
        if code is not None and code not in txt:
            res.fail(f'{mechprefix}:snippet-missing', f'current readcode({lang!r}) not in README')
            return False
    return True
