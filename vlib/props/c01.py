"""C01 — Array creation round-trips values, dtype, byte order and shape."""
import itertools
import random

import numpy as np

from .. import gens
from ..common import Result
from ..monitors import check_array_disk

PID = 'C01'
LEVEL = 'exploration'
RULE = ('structure grid {13 types x 2 byte orders x 6 layouts x rank 1-4 (first axis 0/1/2/5, trailing 1-3) x input '
        'form (ndarray, list, tuple, scalar, chunk generator, Darr Array) x dtype argument (None / other type, other '
        'byte order) x chunk lengths {1,2,len-1,len,len+3,(None sparse)}} strided in quick and denser in thorough, with '
        'random bit-pattern values (NaN payloads, -0.0, inf, subnormals, integer extremes); create_array / '
        'create_temparray x fill values x element-wise fill functions x chunk lengths; rejected element types in 5 input '
        'positions. Every chunk length of one input must give the NumPy reference through the returned handle, a fresh '
        'handle and the independent decoder. Non-trivial = stored array has >= 2 elements or an empty first axis, or a '
        'rejection; distinct by (form, type, byte order, layout, shape, dtype-argument, fill)')
EXHAUSTIVE = False
ASSUMPTIONS = ['np.asarray / astype / np.full are the reference semantics',
               'platform-defined casts (NaN/inf/out-of-range float -> int) and complex -> real casts are not generated',
               '0-d ndarrays, empty generators and zero-length trailing axes are outside the statement']
ANCHORS = ['array:asarray', 'array:create_array', 'array:_archunkgenerator', 'array:_fillgenerator',
           'numtype:arraynumtypeinfo', 'utils:fit_frames', 'datadir:create_datadir']
REQUIRED = ['mon.live_handle', 'mon.fresh_handle', 'mon.ifd_array', 'mon.rejections', 'mon.chunklen_agreement']
MIN_NONTRIVIAL = {'quick': 1200, 'thorough': 20000}

SHAPES = [(n,) + t for n in (0, 1, 2, 5)
          for t in [(), (1,), (2,), (3,), (2, 3), (1, 2), (3, 1), (2, 1, 3), (1, 1, 2), (3, 2, 2)]]
FILLFUNCS = {
    'i': lambda i: i, '2i': lambda i: 2 * i, 'i*[1,2]': lambda i: i * [1, 2],
    'i**2%7': lambda i: i ** 2 % 7, 'i+0.5': lambda i: i + 0.5, '(-1)**i': lambda i: (-1) ** i,
    # leaves the 32-bit range from index 3 on: decides the width of the index grid the function is given
    'i*10**9': lambda i: i * 1_000_000_000,
}
REJECTED = ['bool', 'str', 'bytes', 'object', 'datetime64', 'timedelta64', 'structured', 'longdouble']


def rejected_array(kind):
    return {
        'bool': np.array([True, False]), 'str': np.array(['a', 'bc']), 'bytes': np.array([b'a', b'bc']),
        'object': np.array([1, 'a', None], dtype=object),
        'datetime64': np.array(['2020-01-01', '2021-01-01'], dtype='datetime64[s]'),
        'timedelta64': np.array([1, 2], dtype='timedelta64[ms]'),
        'structured': np.zeros(2, dtype=[('a', '<i4'), ('b', '<f8')]),
        'longdouble': np.array([1.5, 2.5], dtype=np.longdouble),
    }[kind]


def cases(tier, seed):
    rng = random.Random(f'C01:{seed}')
    dense = tier == 'thorough'
    # ---- ndarray inputs: full structure grid, strided in quick
    grid = list(itertools.product(gens.T13, gens.BO, gens.LAYOUTS, SHAPES))
    rng.shuffle(grid)
    take = len(grid) if dense else 700
    for k, (nt, bo, layout, shape) in enumerate(grid[:take]):
        for darg in ([None if k % 3 else 'other'] if not dense else [None, 'other', 'any']):
            yield {'form': 'ndarray', 'numtype': nt, 'bo': bo, 'layout': layout, 'shape': list(shape),
                   'dtypearg': darg, 'none_chunklen': k % 400 == 0 and darg is None, 'k': k}
    # ---- sequences
    for k in range(4000 if dense else 260):
        yield {'form': rng.choice(['list', 'tuple']), 'pykind': rng.choice(['int', 'float', 'complex']),
               'shape': list(rng.choice(SHAPES)), 'dtypearg': None if k % 2 else 'any', 'k': k}
    # ---- scalars
    for k, nt in enumerate(gens.T13 + ['pyint', 'pyfloat', 'pycomplex']):
        for darg in (None, 'any'):
            yield {'form': 'scalar', 'numtype': nt, 'dtypearg': darg, 'k': k}
    # ---- generators of chunks
    for k in range(5000 if dense else 320):
        nt, bo = rng.choice(gens.T13), rng.choice(gens.BO)
        yield {'form': 'generator', 'numtype': nt, 'bo': bo, 'trail': list(rng.choice(SHAPES)[1:]),
               'nchunks': rng.randint(1, 5), 'dtypearg': None if k % 3 else 'other', 'k': k}
    # ---- Darr Array as source
    for k in range(2500 if dense else 200):
        nt, bo = rng.choice(gens.T13), rng.choice(gens.BO)
        yield {'form': 'darr', 'numtype': nt, 'bo': bo, 'shape': list(rng.choice(SHAPES)),
               'dtypearg': None if k % 2 else 'other', 'k': k}
    # ---- create_array / create_temparray
    for k in range(5000 if dense else 420):
        nt, bo = rng.choice(gens.T13), rng.choice(gens.BO)
        shape = rng.choice(SHAPES)
        if k % 2:
            fill, ff = rng.choice([None, 0, -1, 3.7, 2 + 1j, 255, -0.0, complex(-0.0, 0.0), complex(0.0, -0.0),
                                   float('nan'), float('-inf'), 1e-310]), None
        else:
            fill, ff = None, rng.choice(list(FILLFUNCS))
        yield {'form': 'create', 'numtype': nt, 'bo': bo, 'shape': list(shape), 'fill': repr(fill), 'fillfunc': ff,
               'shape_as_int': len(shape) == 1 and k % 4 == 0, 'temp': k % 7 == 0,
               'none_chunklen': k % 200 == 0, 'k': k}
    # ---- rejections
    for kind in REJECTED:
        for pos in ('ndarray', 'list', 'genfirst', 'dtypearg', 'create_dtype'):
            for ow in (False, True):
                yield {'form': 'reject', 'kind': kind, 'pos': pos, 'overwrite': ow}
            yield {'form': 'reject', 'kind': kind, 'pos': pos, 'overwrite': True, 'existing': True}


def chunklens(n, with_none):
    cl = sorted({1, 2, max(1, n - 1), max(1, n), n + 3})
    # ... and the same number spelled as a NumPy scalar of a narrow type (chunk boundaries must not wrap)
    return cl + [np.uint8(2), np.int8(3)] + ([None] if with_none else [])


def pick_dtypearg(rng, case, src_dtype):
    if case['dtypearg'] is None:
        return None
    return _other_target(rng, src_dtype)


def _other_target(rng, src):
    """A target dtype to which values of `src` can be cast with a defined result."""
    src = np.dtype(src)
    while True:
        d = gens.dt(rng.choice(gens.T13), rng.choice(gens.BO))
        if src.kind == 'c' and d.kind != 'c':
            continue
        return d


def run_case(case, env):
    res = Result()
    D = env.darr
    rng = env.rng(case.get('form'), case.get('k'), case.get('kind'), case.get('pos'))
    d = env.scratch.new('c')
    form = case['form']
    res.dim('form', form)
    try:
        if form == 'reject':
            run_reject(case, env, res, d)
            return res
        if form == 'create':
            run_create(case, env, res, d, rng)
            return res
        # ---- build the input and the reference ---------------------------
        make = None          # callable producing a fresh input object (generators are single-use)
        if form == 'ndarray':
            src = gens.dt(case['numtype'], case['bo'])
            shape = tuple(case['shape'])
            target = pick_dtypearg(rng, case, src)
            if case['layout'] == 'broadcast':
                x = gens.broadcast_view(rng, src, shape) if target is None or target == src else \
                    np.broadcast_to(gens.safe_source(rng, src, target, shape[1:] or ()), shape)
            else:
                base = gens.random_values(rng, src, shape) if target is None else \
                    gens.safe_source(rng, src, target, shape)
                x = gens.relayout(base, case['layout'])
            ref = np.asarray(x) if target is None else np.asarray(x).astype(target)
            make = lambda: x
            res.dim('layout', case['layout'])
            res.dim('dtype', f"{case['numtype']}/{case['bo']}")
            res.dim('rank', len(shape))
        elif form in ('list', 'tuple'):
            shape = tuple(case['shape'])
            n = int(np.prod(shape))
            target = pick_dtypearg(rng, case, {'int': 'int64', 'float': 'float64', 'complex': 'complex128'}[case['pykind']])
            if case['pykind'] == 'int' or (target is not None and target.kind in 'iu'):
                lim = 100 if target is not None else 2 ** 62
                flat = [rng.randint(0 if target is not None else -lim, lim) for _ in range(n)]
                if case['pykind'] == 'float':
                    flat = [float(v) for v in flat]
                if case['pykind'] == 'complex':
                    if target is not None and target.kind != 'c':
                        target = gens.dt('complex128', 'big')
                    flat = [complex(v, -v) for v in flat]
            elif case['pykind'] == 'float':
                flat = [rng.choice([rng.uniform(-1e3, 1e3), 0.0, -0.0, float('inf'), float('nan'), 1e-310]) for _ in range(n)]
            else:
                if target is not None and target.kind != 'c':
                    target = gens.dt('complex64', 'little')
                flat = [complex(rng.uniform(-9, 9), rng.choice([0.0, -0.0, 2.5, float('inf')])) for _ in range(n)]
            nested = np.array(flat, dtype=object).reshape(shape).tolist() if n else np.zeros(shape).tolist()
            if form == 'tuple':
                def tup(v):
                    return tuple(tup(e) for e in v) if isinstance(v, list) else v
                nested = tup(nested)
            if n == 0:
                # an empty nested sequence has no element kind; NumPy says float64
                pass
            x = nested
            ref = np.asarray(x) if target is None else np.asarray(x, dtype=target)
            make = lambda: x
            res.dim('pykind', case['pykind'])
        elif form == 'scalar':
            nt = case['numtype']
            if nt.startswith('py'):
                x = {'pyint': 41, 'pyfloat': -2.5, 'pycomplex': 1 - 3j}[nt]
                srck = {'pyint': 'int64', 'pyfloat': 'float64', 'pycomplex': 'complex128'}[nt]
            else:
                x = gens.random_values(rng, np.dtype(nt), (1,))[0]
                srck = nt
            target = None
            if case['dtypearg']:
                target = _other_target(rng, srck)
                if target.kind in 'iu' or np.dtype(srck).kind in 'iu':
                    x = type(x)(7) if not isinstance(x, np.generic) else np.dtype(srck).type(7)
            ref = np.asarray(x).reshape(1) if target is None else np.asarray(x).astype(target).reshape(1)
            make = lambda: x
        elif form == 'generator':
            first = gens.dt(case['numtype'], case['bo'])
            trail = tuple(case['trail'])
            target = pick_dtypearg(rng, case, first)
            eff = target if target is not None else first
            chunks = []
            for c in range(case['nchunks']):
                k = rng.choice([0, 1, 2, 4])
                kind = 'nd' if c == 0 else rng.choice(['nd', 'ndother', 'list', 'scalar'])
                if kind == 'nd':
                    chunks.append(gens.random_values(rng, first, (k,) + trail) if target is None
                                  else gens.safe_source(rng, first, target, (k,) + trail))
                elif kind == 'ndother':
                    od = gens.other_dtype(rng, eff)
                    chunks.append(gens.relayout(gens.safe_source(rng, od, eff, (k,) + trail),
                                                rng.choice(['C', 'F', 'strided'])))
                elif kind == 'list':
                    chunks.append(gens.safe_source(rng, 'int64', eff, (k,) + trail).tolist())
                else:
                    if trail == ():
                        chunks.append(rng.randrange(0, 100))
                    else:
                        chunks.append(gens.safe_source(rng, 'int64', eff, (1,) + trail).tolist())
            parts = []
            for c in chunks:
                p = np.asarray(c, dtype=target) if target is not None else np.asarray(c)
                if p.ndim == 0:
                    p = p.reshape(1)
                if p.size == 0:   # an empty list chunk carries no trailing shape; it contributes no rows
                    p = p.reshape((0,) + trail)
                parts.append(p)
            fd = parts[0].dtype
            ref = np.concatenate([p.astype(fd) for p in parts], axis=0).astype(fd)
            make = lambda: (c for c in chunks)
            res.dim('dtype', f"{case['numtype']}/{case['bo']}")
        elif form == 'darr':
            src = gens.dt(case['numtype'], case['bo'])
            shape = tuple(case['shape'])
            target = pick_dtypearg(rng, case, src)
            base = gens.random_values(rng, src, shape) if target is None else gens.safe_source(rng, src, target, shape)
            srcarr = D.asarray(d / 'source', base, chunklen=2)
            ref = base if target is None else base.astype(target)
            make = lambda: srcarr
            res.dim('dtype', f"{case['numtype']}/{case['bo']}")
        else:
            raise ValueError(form)
        res.dim('dtypearg', 'none' if target is None else 'given')
        n = ref.shape[0]
        ok_all = True
        for ci, cl in enumerate(chunklens(n, case.get('none_chunklen', False))):
            path = d / f'out{ci}'
            res.count('creations')
            res.count('mon.chunklen_agreement')
            try:
                a = D.asarray(path, make(), dtype=target, chunklen=cl)
            except Exception as e:
                res.fail(f'{form}:creation-raised:{type(e).__name__}',
                         f'asarray({form}, dtype={target}, chunklen={cl}) raised {type(e).__name__}: {str(e)[:200]}',
                         chunklen=cl, ref_shape=list(ref.shape), ref_dtype=ref.dtype.str)
                ok_all = False
                break
            if not check_array_disk(res, D, path, a, ref, mechprefix=form):
                for f in res.fails:
                    f['witness'].update({'chunklen': cl, 'dtypearg': str(target)})
                ok_all = False
                break
        res.nontrivial = ref.size >= 2 or ref.shape[0] == 0
        res.sig = repr((form, case.get('numtype'), case.get('bo'), case.get('layout'), case.get('shape'),
                        case.get('pykind'), case.get('trail'), case.get('nchunks'), str(target)))
        return res
    finally:
        env.scratch.drop(d)


def run_create(case, env, res, d, rng):
    D = env.darr
    dtype = gens.dt(case['numtype'], case['bo'])
    shape = tuple(case['shape'])
    fill = eval(case['fill'], {'nan': float('nan'), 'inf': float('inf')})
    ffname = case['fillfunc']
    if isinstance(fill, complex) and dtype.kind != 'c':
        fill = 3
    if isinstance(fill, float) and dtype.kind in 'iu':
        fill = 3
    if isinstance(fill, float) and fill == 1e-310 and dtype.itemsize < 8:
        fill = -0.0
    if fill is not None and dtype.kind == 'u' and isinstance(fill, int) and fill < 0:
        fill = 2
    if fill == 255 and dtype.kind in 'iu' and np.iinfo(dtype).max < 255:
        fill = 100
    if ffname == 'i*[1,2]' and (len(shape) < 2 or shape[-1] != 2):
        ffname = '2i'
    if ffname == '(-1)**i' and dtype.kind == 'u':
        ffname = 'i**2%7'
    ff = FILLFUNCS[ffname] if ffname else None
    # reference
    if ff is None:
        ref = np.full(shape, 0 if fill is None else fill, dtype=dtype)
    else:
        grid = np.empty(shape, dtype='int64')
        grid.T[:] = np.arange(shape[0], dtype='int64')
        ref = np.empty(shape, dtype=dtype)
        ref[:] = ff(grid)
    shp = shape[0] if case['shape_as_int'] else shape
    n = shape[0]
    cls = sorted({1, 2, 3, max(1, n), n + 1}) + [np.uint8(2), np.int8(3)] + ([None] if case['none_chunklen'] else [])
    res.dim('fill', ffname or f'value:{fill!r}')
    res.dim('dtype', f"{case['numtype']}/{case['bo']}")
    for ci, cl in enumerate(cls):
        res.count('creations')
        res.count('mon.chunklen_agreement')
        path = d / f'c{ci}'
        try:
            if case['temp']:
                with D.create_temparray(shape=shp, dtype=dtype, fill=fill, fillfunc=ff, chunklen=cl,
                                        report=False) as a:
                    ok = check_array_disk(res, D, a.path, a, ref, mechprefix='create_temparray')
                    tpath = a.path
                if tpath.exists():
                    res.fail('create_temparray:not-removed', f'{tpath} still exists after the context')
            else:
                a = D.create_array(path, shape=shp, dtype=dtype, fill=fill, fillfunc=ff, chunklen=cl)
                ok = check_array_disk(res, D, path, a, ref, mechprefix='create_array')
                if ok and a.accessmode != 'r+':
                    res.fail('create_array:accessmode', f'default accessmode is {a.accessmode}')
        except Exception as e:
            res.fail(f'create:creation-raised:{type(e).__name__}',
                     f'create_array(shape={shp}, dtype={dtype}, fill={fill!r}, fillfunc={ffname}, chunklen={cl}) '
                     f'raised {type(e).__name__}: {str(e)[:200]}', chunklen=cl)
            break
        if res.fails:
            for f in res.fails:
                f['witness'].update({'chunklen': cl, 'shape': list(shape), 'fill': repr(fill), 'fillfunc': ffname})
            break
    res.nontrivial = ref.size >= 2 or ref.shape[0] == 0
    res.sig = repr(('create', case['numtype'], case['bo'], shape, repr(fill), ffname, case['temp']))


def run_reject(case, env, res, d):
    D = env.darr
    kind, pos = case['kind'], case['pos']
    bad = rejected_array(kind)
    path = d / 'rejected'
    ow = case.get('overwrite', False)
    if case.get('existing'):
        D.asarray(path, [1, 2, 3], metadata={'keep': 1})
    from ..monitors import snapshot
    before = snapshot(path)
    res.count('mon.rejections')
    res.dim('rejected_kind', kind)
    res.dim('rejected_position', pos)
    try:
        if pos == 'ndarray':
            D.asarray(path, bad, overwrite=ow)
        elif pos == 'list':
            D.asarray(path, bad.tolist() if kind != 'structured' else [('a', 1)], overwrite=ow)
        elif pos == 'genfirst':
            D.asarray(path, (c for c in [bad, bad]), overwrite=ow)
        elif pos == 'dtypearg':
            D.asarray(path, [0, 1], dtype=bad.dtype, overwrite=ow)
        else:
            D.create_array(path, shape=(3,), dtype=bad.dtype, chunklen=2, overwrite=ow)
        raised = None
    except Exception as e:
        raised = e
    res.nontrivial = True
    res.sig = repr(('reject', kind, pos, ow, bool(case.get('existing'))))
    listing = sorted(p.name for p in d.iterdir())
    if case.get('existing'):
        # the path held an array: a rejected call must leave it exactly as it was
        if raised is None or not isinstance(raised, TypeError):
            res.fail(f'reject:accepted-or-wrong-exception:{kind}:{pos}:existing',
                     f'{kind} as {pos} over an existing array with overwrite=True: {type(raised).__name__ if raised else "accepted"}')
        elif snapshot(path) != before:
            res.fail(f'reject:existing-array-touched:{kind}:{pos}', f'{kind} as {pos}: TypeError raised but the existing array changed')
        return
    if raised is None:
        res.fail(f'reject:accepted:{kind}:{pos}', f'{kind} as {pos} was accepted; directory now holds {listing}')
    elif not isinstance(raised, TypeError):
        res.fail(f'reject:wrong-exception:{kind}:{pos}:{type(raised).__name__}',
                 f'{kind} as {pos}: raised {type(raised).__name__} instead of TypeError: {str(raised)[:160]}')
    elif path.exists() or listing:
        res.fail(f'reject:disk-touched:{kind}:{pos}:overwrite={ow}', f'{kind} as {pos}: TypeError raised but {listing} was left on disk')
