"""C17 — a process crash at any point never makes Darr return wrong data.

CrashPointRecorder: a sys.monitoring LINE callback (restricted to code under
/repo/darr) snapshots the array directory between every two executed source
lines of Darr; every distinct on-disk state is what a kill -9 at that point
would leave behind (user-space buffers die with the process, the page cache
does not).  Torn versions of every file write between consecutive states are
synthesised.  Every state is materialised and opened."""
import os
import random
import re
import sys
from pathlib import Path

import numpy as np

from .. import gens
from ..common import REPO, Result
from ..faults import failing_iter
from ..monitors import bits_equal, snapshot

PID = 'C17'
LEVEL = 'fault_enumeration'
RULE = ('scenarios {append, iterappend of 3 chunks, iterappend whose iterable raises after 2 chunks (recovery path), '
        'iterappend with a bad third chunk, iterappend with zero-row chunks, two appends, truncate to 1 / 0 / -1, truncate then '
        'append, metadata setitem / update / pop / popitem / del / pop of the last key} x '
        '{Array 1-D, Array 2-D, RaggedArray atom (), RaggedArray atom (2,)} x {empty, non-empty start} x dtypes; every '
        'distinct directory state observed between two executed Darr source lines (LINE events), plus torn variants of every '
        'file that differs between consecutive states (emptied; old + 1 byte / half / all-but-one of the appended tail; '
        'prefix of rewritten text at 1 / half / len-1; new text over the tail of the old; thorough: every cut point up to 64 '
        'bytes, ~48 strided cuts beyond). Each state is materialised and opened with Array / '
        'RaggedArray in mode r and (on a second copy) in mode r+, and dict(metadata): a successful open must show a legitimate state. Non-trivial = a state that differs '
        'from both the initial and the final state; distinct by content hash of the state')
EXHAUSTIVE = True
EXHAUSTIVE_PART = 'all line-level on-disk states of each scenario; the listed torn variants of each changed file'
ASSUMPTIONS = ['granularity is Darr source lines: a crash inside a single C call (tofile, write) is represented by the torn variants',
               'reordering of writes across files by the OS after a power loss is outside the property ("the process dies")']
ANCHORS = ['array:Array.iterappend', 'array:Array._append', 'array:Array._update_len', 'array:Array._update_arrayinfo',
           'array:truncate_array', 'array:Array._check_arrayinfoconsistency', 'raggedarray:RaggedArray.iterappend',
           'raggedarray:truncate_raggedarray', 'metadata:MetaData.update', 'metadata:MetaData.pop', 'utils:write_jsonfile']
REQUIRED = ['mon.line_states', 'mon.torn_states', 'mon.opens_raised', 'mon.opens_succeeded_legit']
MIN_NONTRIVIAL = {'quick': 1500, 'thorough': 15000}

OPS = ['append', 'iterappend3', 'iterappend_from_darr', 'iterappend_raises', 'iterappend_badchunk', 'iterappend_empty_chunks', 'append_twice',
       'truncate1', 'truncate0', 'truncatem1', 'truncate_then_append', 'md_setitem', 'md_update', 'md_pop', 'md_poplast',
       'md_popitem', 'md_del']
KINDS = ['array1d', 'array2d', 'ragged', 'ragged2']


def cases(tier, seed):
    combos = [('int32', 'little'), ('float64', 'big')] if tier == 'quick' else \
        [(t, b) for t in gens.T13 for b in gens.BO][::2]
    for nt, bo in combos:
        for kind in KINDS:
            for start in ('empty', 'nonempty'):
                for op in OPS:
                    if start == 'empty' and op.startswith('truncate'):
                        continue
                    if tier == 'quick' and (nt, bo) != combos[0] and op in ('append_twice', 'md_popitem', 'md_del', 'truncatem1'):
                        continue
                    yield {'kind': kind, 'start': start, 'op': op, 'numtype': nt, 'bo': bo}
        # a ragged array with a narrow index type that is about to overflow (250 of 255 positions used): the append of
        # the third item (end 256) has to fail, and no state may show anything but whole earlier items
        for op in ('append', 'iterappend3', 'append_twice', 'iterappend_empty_chunks'):
            yield {'kind': 'ragged_u8', 'start': 'nonempty', 'op': op, 'numtype': nt, 'bo': bo}


class Recorder:
    """Collects every distinct snapshot of `path` seen at a LINE event of Darr code."""
    TOOL = 5

    def __init__(self, path):
        self.path = path
        self.states = []
        self.events = 0
        self.prefix = str(REPO / 'darr') + os.sep

    def __enter__(self):
        mon = sys.monitoring
        mon.use_tool_id(self.TOOL, 'darrverif-crashpoints')

        def on_line(code, line):
            if not code.co_filename.startswith(self.prefix) or code.co_filename.endswith('_version.py'):
                return mon.DISABLE
            self.events += 1
            self.take()

        mon.register_callback(self.TOOL, mon.events.LINE, on_line)
        mon.set_events(self.TOOL, mon.events.LINE)
        self.take()
        return self

    def take(self):
        s = snapshot(self.path)
        if not self.states or s != self.states[-1]:
            self.states.append(s)

    def __exit__(self, *exc):
        mon = sys.monitoring
        self.take()
        mon.set_events(self.TOOL, 0)
        mon.register_callback(self.TOOL, mon.events.LINE, None)
        mon.free_tool_id(self.TOOL)
        mon.restart_events()
        return False


def materialise(state, dest):
    for rel, (kind, content) in sorted(state.items()):
        p = dest if rel == '.' else dest / rel
        if kind == 'd':
            p.mkdir(parents=True, exist_ok=True)
        elif kind == 'f':
            p.parent.mkdir(parents=True, exist_ok=True)
            p.write_bytes(content)


DENSE = {'on': False}


def cuts(n):
    """Cut points 0 < c < n: three in quick, every one (up to 64, then strided) in thorough."""
    if n <= 1:
        return []
    if not DENSE['on']:
        return sorted({1, n // 2, n - 1} - {0, n})
    if n <= 64:
        return list(range(1, n))
    step = max(1, n // 48)
    return sorted(set(range(1, n, step)) | {1, n // 2, n - 1})


def torn_variants(a, b):
    """States between snapshot a and its successor b in which one changed file is only partly written."""
    out = []
    for rel in sorted(set(a) | set(b)):
        va, vb = a.get(rel), b.get(rel)
        if va == vb or (vb is not None and vb[0] != 'f') and (va is not None and va[0] != 'f'):
            continue
        old = va[1] if va is not None and va[0] == 'f' else None
        new = vb[1] if vb is not None and vb[0] == 'f' else None
        cands = []
        if new is None:         # file removed: nothing in between but present/absent
            continue
        cands.append(('emptied', b''))
        if old is not None and len(new) > len(old) and new.startswith(old):
            tail = new[len(old):]
            for cut in cuts(len(tail)):
                cands.append((f'tail+{cut}of{len(tail)}' if DENSE['on'] else
                              {1: 'tail+1', len(tail) - 1: 'tail-allbutone'}.get(cut, 'tail-half'), old + tail[:cut]))
        elif old is not None and len(new) < len(old) and old.startswith(new):
            mid = (len(old) + len(new)) // 2
            if len(new) < mid < len(old):
                cands.append(('shrink-half', old[:mid]))
        else:
            for cut in cuts(len(new)):
                cands.append((f'prefix-{cut}of{len(new)}' if DENSE['on'] else
                              {1: 'prefix-1', len(new) - 1: 'prefix-allbutone'}.get(cut, 'prefix-half'), new[:cut]))
            if old is not None and len(old) > len(new):
                # in-place rewrite without truncation would leave new + tail of old
                cands.append(('new-over-old-tail', new + old[len(new):]))
        for name, content in cands:
            s = dict(a)
            s[rel] = ('f', content)
            # parents must exist in the state
            out.append((f'{rel}:{name}', s))
    return out


def chunks_for(dtype, trail, rng):
    return [gens.random_values(rng, dtype, (k,) + trail) for k in (2, 1, 3)]


def run_case(case, env):
    res = Result()
    D = env.darr
    DENSE['on'] = env.tier == 'thorough'
    rng = env.rng('c17', repr(sorted(case.items())))
    dtype = gens.dt(case['numtype'], case['bo'])
    kind, op, start = case['kind'], case['op'], case['start']
    ragged = kind.startswith('ragged')
    trail = {'array1d': (), 'array2d': (3,), 'ragged': (), 'ragged2': (2,), 'ragged_u8': ()}[kind]
    d = env.scratch.new('z')
    try:
        path = d / 'arr'
        md0 = {'a': 1, 'b': [1, 2]}
        if ragged:
            items0 = [] if start == 'empty' else [gens.random_values(rng, dtype, (k,) + trail) for k in
                                                  ((250,) if kind == 'ragged_u8' else (2, 0, 3))]
            h = D.asraggedarray(path, [gens.random_values(rng, dtype, (1,) + trail)] if start == 'empty' else
                                [x.copy() for x in items0], dtype=dtype, metadata=md0, accessmode='r+',
                                **({'indextype': 'uint8'} if kind == 'ragged_u8' else {}))
            if start == 'empty':
                D.truncate_raggedarray(h, 0)
                h = D.RaggedArray(path, accessmode='r+')
            before = list(items0)
        else:
            before = gens.random_values(rng, dtype, ((0 if start == 'empty' else 4),) + trail)
            h = D.asarray(path, before.copy(), metadata=md0, accessmode='r+', chunklen=2)
        chunks = chunks_for(dtype, trail, rng)
        legit_md = [md0]

        def cat(n):
            if ragged:
                return before + chunks[:n]
            out = before
            for c in chunks[:n]:
                out = np.concatenate([out, c], axis=0).astype(dtype)
            return out

        legit = [cat(0)]
        if kind == 'ragged_u8':
            # the item that would end at position 256 cannot be stored: the call raises, and only the items before it count
            legit = [cat(0), cat(1), cat(2)]
        raised = None
        src_obj = None
        if op == 'iterappend_from_darr':
            if ragged:
                src_obj = D.asraggedarray(d / 'src', [c.copy() for c in chunks], dtype=dtype)
            else:
                eq = [c[:len(chunks[0])] if len(c) >= len(chunks[0]) else None for c in chunks]
                if any(e is None for e in eq):
                    chunks = [chunks[0]] * 3
                else:
                    chunks = eq
                src_obj = D.asarray(d / 'src', np.concatenate(chunks, axis=0).astype(dtype))
        with Recorder(path) as rec:
            try:
                if op == 'append':
                    h.append(chunks[0])
                    legit.append(cat(1))
                elif op == 'iterappend3':
                    h.iterappend(c for c in chunks)
                    legit += [cat(1), cat(2), cat(3)]
                elif op == 'iterappend_from_darr':
                    # the iterable is itself a Darr object (a RaggedArray, or the chunks of an Array)
                    legit += [cat(1), cat(2), cat(3)]
                    h.iterappend(src_obj if ragged else src_obj.iterchunks(len(chunks[0])))
                elif op == 'iterappend_raises':
                    legit += [cat(1), cat(2)]
                    h.iterappend(failing_iter(chunks, 2))
                elif op == 'iterappend_badchunk':
                    legit += [cat(1), cat(2)]
                    bad = np.zeros((1,) + trail + (2,), dtype=dtype)
                    h.iterappend(iter([chunks[0], chunks[1], bad]))
                elif op == 'iterappend_empty_chunks':
                    empty = gens.random_values(rng, dtype, (0,) + trail)
                    seq = [empty, chunks[0], empty, chunks[1]]
                    legit += [cat(1), cat(2)] if not ragged else \
                        [before + seq[:k] for k in range(1, 5)]
                    h.iterappend(iter(seq))
                elif op == 'append_twice':
                    legit += [cat(1), cat(2)]
                    h.append(chunks[0])
                    h.append(chunks[1])
                elif op in ('truncate1', 'truncate0', 'truncatem1'):
                    idx = {'truncate1': 1, 'truncate0': 0, 'truncatem1': -1}[op]
                    legit.append(before[:idx])
                    (D.truncate_raggedarray if ragged else D.truncate_array)(h, idx)
                elif op == 'truncate_then_append':
                    t = before[:1]
                    legit.append(t)
                    if ragged:
                        legit.append(list(t) + [chunks[0]])
                    else:
                        legit.append(np.concatenate([t, chunks[0]], axis=0).astype(dtype))
                    (D.truncate_raggedarray if ragged else D.truncate_array)(h, 1)
                    h.append(chunks[0])
                elif op == 'md_setitem':
                    legit_md.append({'a': 1, 'b': [1, 2], 'c': 'x' * 50})
                    h.metadata['c'] = 'x' * 50
                elif op == 'md_update':
                    legit_md.append({'a': {'n': [1.5, None]}, 'b': [1, 2], 'z': 0})
                    h.metadata.update({'a': {'n': [1.5, None]}, 'z': 0})
                elif op == 'md_pop':
                    legit_md.append({'b': [1, 2]})
                    h.metadata.pop('a')
                elif op == 'md_popitem':
                    legit_md += [{'a': 1}, {'b': [1, 2]}]
                    h.metadata.popitem()
                elif op == 'md_del':
                    legit_md.append({'a': 1})
                    del h.metadata['b']
                elif op == 'md_poplast':
                    legit_md += [{'b': [1, 2]}, {}]
                    h.metadata.pop('a')
                    h.metadata.pop('b')
            except Exception as e:
                raised = e
        res.count('mon.line_events', rec.events)
        states = [('line', f'state{i}', s) for i, s in enumerate(rec.states)]
        res.count('mon.line_states', len(states))
        for i in range(len(rec.states) - 1):
            for name, s in torn_variants(rec.states[i], rec.states[i + 1]):
                states.append(('torn', f'state{i}->{i + 1}:{name}', s))
        res.count('mon.torn_states', len(states) - len(rec.states))
        first, last = rec.states[0], rec.states[-1]
        sigs = set()
        opener = D.RaggedArray if ragged else D.Array
        for sk, name, s, omode in [(a_, b_, c_, m_) for (a_, b_, c_) in states for m_ in ('r', 'r+')]:
            w = env.scratch.new('m')
            try:
                target = w / 'arr'
                materialise(s, target)
                if s != first and s != last:
                    import hashlib
                    sigs.add(hashlib.sha1(repr(sorted((k, v[0], v[1]) for k, v in s.items())).encode()).hexdigest())
                res.count(f'mon.opened_mode_{omode}')
                try:
                    o = opener(target, accessmode=omode)
                    if ragged:
                        got = [np.asarray(o[k]) for k in range(len(o))]
                    else:
                        got = o[:]
                except Exception:
                    res.count('mon.opens_raised')
                    continue
                ok = any(same(got, l, ragged) for l in legit)
                if not ok:
                    desc = f'{len(got)} subarrays' if ragged else f'shape {got.shape}'
                    res.fail(f'illegitimate-open:{op}:{sk}:{re.sub(r'[0-9]+of[0-9]+', 'N', name.split(':')[-1]) if sk == 'torn' else 'between-lines'}',
                             f'{kind} {start} {op}: crash state {name} opens successfully (mode {omode}) showing {desc}, which is neither the '
                             f'state before, after, nor original + whole chunks', state=name, **case)
                    break
                try:
                    gm = dict(o.metadata)
                except Exception:
                    res.count('mon.metadata_raised')
                    gm = None
                if gm is not None and gm not in legit_md:
                    res.fail(f'illegitimate-metadata:{op}:{sk}',
                             f'{kind} {start} {op}: crash state {name} opens with metadata {gm!r}, legitimate: {legit_md!r}',
                             state=name, **case)
                    break
                res.count('mon.opens_succeeded_legit')
            finally:
                env.scratch.drop(w)
        res.sig = sigs
        res.nontrivial = bool(sigs)
        res.evals = 2 * len(states)
        res.dim('scenario', f'{kind}:{start}:{op}')
        res.dim('call_outcome', type(raised).__name__ if raised else 'returned')
        return res
    finally:
        env.scratch.drop(d)


def same(got, legit, ragged):
    if ragged:
        return len(got) == len(legit) and all(bits_equal(np.ascontiguousarray(g), l) for g, l in zip(got, legit))
    return bits_equal(got, legit)
