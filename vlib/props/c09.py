"""C09 — a failed Array append leaves exactly the completed chunks."""
import itertools
import random

import numpy as np

from .. import decoder, gens
from ..common import Result
from ..faults import FileSizeLimit, SourceFailed, failing_iter, source_exception
from ..monitors import bits_equal, describe, same_dtype
from ..procs import run_forked

PID = 'C09'
LEVEL = 'fault_enumeration'
RULE = ('enumeration of start state {empty, non-empty} x rank 1-3 x number of chunks 0-4 x failure position 0..n x '
        'failure kind (plain, and inside an open_array() context after a successful append in that context) {iterable raises, wrong trailing shape, wrong rank, unconvertible str element, complex into real, '
        'integer too large, 0-d ndarray chunk, kernel-enforced write failure via RLIMIT_FSIZE at every chunk boundary '
        '-1/0/+1 byte, mid element, mid row, one item into a chunk, for stdio-buffered (80 B), medium (8 kB) and large '
        '(800 kB) chunks} x API {append, iterappend}; oracle: the call raised, a fresh Array opens, the independent decoder '
        'accepts the files, contents = original + completed chunks, live handle = fresh handle. Write-failure cases run '
        'in a forked child. All cases are non-trivial; distinct by the full fault descriptor')
EXHAUSTIVE = True
EXHAUSTIVE_PART = 'positions x kinds x start states for logical faults; byte offsets around every chunk boundary for write faults'
ASSUMPTIONS = ['RLIMIT_FSIZE limits every file of the process: data files are kept larger than README/JSON so that only '
               'the data file hits the limit; for empty starts only offsets above the README size are used',
               'a write failure is "the file system refuses further growth"; completed = chunks that fit entirely below the limit']
ANCHORS = ['array:Array.iterappend', 'array:Array.append', 'array:Array._append', 'array:Array._checkarrayforappend',
           'array:Array._update_len']
REQUIRED = ['mon.failure_oracle', 'mon.write_fault_children', 'mon.logic_faults']
MIN_NONTRIVIAL = {'quick': 700, 'thorough': 5000}

LOGIC_KINDS = ['iterraises', 'badshape', 'badrank', 'unconvertible_str', 'complex_into_real', 'int_too_large', 'zerod',
               'badshape_samesize', 'badshape0rows']   # added after seed C09-22: same rank and row size, other trailing shape; no rows but wrong trailing shape
TRAILS = [(), (2,), (2, 3)]


def cases(tier, seed):
    combos = [('int32', 'little'), ('float64', 'big'), ('uint8', 'little'), ('complex64', 'big'),
              ('int16', 'big'), ('float32', 'little')]
    nmax = 3 if tier == 'quick' else 4
    for rot in range(1 if tier == 'quick' else 6):      # thorough: every dtype combination meets every fault cell
      idx = rot
      for start in ('empty', 'nonempty'):
        for trail in TRAILS:
              for kind in LOGIC_KINDS:
                  for n in range(0, nmax + 1):
                      for pos in range(0, n + 1):
                          if kind != 'iterraises' and pos == n:
                              continue     # a bad chunk needs a position inside the list
                          nt, bo = combos[idx % len(combos)]
                          idx += 1
                          if kind == 'complex_into_real' and nt.startswith('complex'):
                              nt = 'float32'
                          yield {'k': 'logic', 'api': 'iterappend', 'start': start, 'trail': list(trail), 'kind': kind,
                                 'n': n, 'pos': pos, 'numtype': nt, 'bo': bo}
                          if n == nmax or pos == 0:
                              # the same fault inside an open_array() context, after a successful append in that context
                              yield {'k': 'logic', 'api': 'iterappend', 'start': start, 'trail': list(trail), 'kind': kind,
                                     'n': n, 'pos': pos, 'numtype': nt, 'bo': bo, 'inctx': True}
                  if kind != 'iterraises':
                      nt, bo = combos[idx % len(combos)]
                      idx += 1
                      if kind == 'complex_into_real' and nt.startswith('complex'):
                          nt = 'int16'
                      yield {'k': 'logic', 'api': 'append', 'start': start, 'trail': list(trail), 'kind': kind,
                             'n': 1, 'pos': 0, 'numtype': nt, 'bo': bo}
    # ---- kernel-enforced write failures
    wcombos = combos if tier == 'thorough' else combos[:3]
    for start in ('nonempty', 'empty'):
        for chunkbytes in (80, 8192, 800_000):
            if start == 'empty' and chunkbytes < 8192:
                continue       # the limit must stay above the README size (see ASSUMPTIONS)
            for nt, bo in wcombos:
                for trail in ((), (5,)) if tier == 'quick' else ((), (5,), (2, 5)):
                    itemsize = np.dtype(nt).itemsize
                    rowbytes = itemsize * int(np.prod(trail)) if trail else itemsize
                    rows = max(1, chunkbytes // rowbytes)
                    cb = rows * rowbytes
                    nchunks = 3 if chunkbytes < 100_000 else 2
                    offs = set()
                    for b in range(0, nchunks + 1):
                        edge = b * cb
                        for dlt in (-1, 0, 1):
                            offs.add(edge + dlt)
                        offs.add(edge + itemsize // 2 if itemsize > 1 else edge + 1)   # mid element
                        offs.add(edge + rowbytes // 2)                                  # mid row
                        offs.add(edge + itemsize)                                      # one item into the chunk
                        offs.add(edge + cb // 2)
                    if tier == 'thorough':
                        rng = random.Random(f'C09:{seed}:{start}:{chunkbytes}:{nt}:{trail}')
                        offs.update(rng.randrange(0, nchunks * cb) for _ in range(12))
                    lo = 7000 if start == 'empty' else 0
                    for off in sorted(o for o in offs if lo <= o < nchunks * cb):
                        for api in (('iterappend',) if nchunks > 1 else ('iterappend', 'append')):
                            yield {'k': 'write', 'api': api, 'start': start, 'trail': list(trail), 'numtype': nt, 'bo': bo,
                                   'rows': rows, 'nchunks': nchunks, 'offset': off}
                    # single-chunk append() through the same fault
                    for off in sorted(o for o in offs if lo <= o < cb)[:6]:
                        yield {'k': 'write', 'api': 'append', 'start': start, 'trail': list(trail), 'numtype': nt, 'bo': bo,
                               'rows': rows, 'nchunks': 1, 'offset': off}


def good_chunk(rng, dtype, trail, rows, tag):
    """A chunk with recognisable contents."""
    n = rows * (int(np.prod(trail)) if trail else 1)
    vals = (np.arange(n, dtype='int64') + 17 * (tag + 1)) % 100
    return vals.astype(dtype).reshape((rows,) + tuple(trail))


def bad_chunk(kind, dtype, trail):
    trail = tuple(trail)
    if kind == 'badshape':
        return np.zeros((1,) + (trail[:-1] + (trail[-1] + 1,) if trail else (2,)), dtype=dtype)
    if kind == 'badrank':
        return np.zeros((2,) + trail[:-1] if trail else (1, 1), dtype=dtype)
    if kind == 'badshape_samesize' and len(trail) >= 2:
        # same rank, same number of elements per row, different trailing shape: (k,2,3) -> (k,6,1)
        return np.zeros((1, int(np.prod(trail))) + (1,) * (len(trail) - 1), dtype=dtype)
    if kind in ('badshape_samesize', 'badshape0rows'):
        return np.zeros((0,) + (trail[:-1] + (trail[-1] + 1,) if trail else (2,)), dtype=dtype)
    if kind == 'unconvertible_str':
        x = np.zeros((1,) + trail, dtype=object)
        x[...] = 'x'
        return x.tolist()
    if kind == 'complex_into_real':
        x = np.zeros((1,) + trail, dtype=object)
        x[...] = 1 + 2j
        return x.tolist()
    if kind == 'int_too_large':
        x = np.zeros((1,) + trail, dtype=object)
        x[...] = 10 ** 400
        return x.tolist()
    if kind == 'zerod':
        return np.array(7, dtype=dtype)
    raise ValueError(kind)


def make_start(env, d, case, rng, nonempty_rows=None):
    D = env.darr
    dtype = gens.dt(case['numtype'], case['bo'])
    trail = tuple(case['trail'])
    if case['start'] == 'empty':
        ref = np.zeros((0,) + trail, dtype=dtype)
    else:
        rows = nonempty_rows or 3
        ref = good_chunk(rng, dtype, trail, rows, 50)
    path = d / 'arr'
    a = D.asarray(path, ref.copy(), accessmode='r+', chunklen=1000)
    return a, path, ref


def oracle(D, path, live, expected, raised_name):
    """Returns a list of (symptom, message).  Runs after the failed call."""
    out = []
    if raised_name is None:
        out.append(('no-raise', 'the failing call returned normally'))
    try:
        fresh = D.Array(path)
    except Exception as e:
        out.append(('unopenable', f'darr.Array(path) raised {type(e).__name__}: {str(e)[:160]}'))
        return out
    try:
        dec, j = decoder.decode_array(path)
    except decoder.FormatError as e:
        out.append(('ifd-rejects', f'independent decoder: {e}'))
        return out
    fv = fresh[:]
    if not bits_equal(fv, expected):
        out.append(('wrong-contents', f'fresh handle holds shape {fv.shape} {describe(fv)[:120]}, '
                                      f'expected original + completed chunks: shape {expected.shape} {describe(expected)[:120]}'))
    elif not bits_equal(np.ascontiguousarray(dec), expected):
        out.append(('wrong-file-contents', 'raw files decode to something else than original + completed chunks'))
    try:
        lv = live[:]
        if not (bits_equal(lv, fv) and live.shape == fresh.shape and len(live) == len(fresh)
                and same_dtype(live.dtype, fresh.dtype)):
            out.append(('live-differs-from-fresh', f'live handle shape {live.shape}, fresh {fresh.shape}'))
    except Exception as e:
        out.append(('live-unreadable', f'live handle raised {type(e).__name__}: {str(e)[:120]}'))
    return out


def run_case(case, env):
    res = Result()
    d = env.scratch.new('f')
    try:
        if case['k'] == 'logic':
            run_logic(case, env, res, d)
        else:
            run_write(case, env, res, d)
        res.nontrivial = True
        res.sig = repr(sorted(case.items(), key=str))
        res.dim('fault_kind', case.get('kind', 'write-failure'))
        res.dim('start', case['start'])
        res.dim('api', case['api'])
        return res
    finally:
        env.scratch.drop(d)


def run_logic(case, env, res, d):
    D = env.darr
    rng = env.rng('logic', repr(sorted(case.items(), key=str)))
    a, path, ref = make_start(env, d, case, rng)
    dtype, trail = ref.dtype, tuple(case['trail'])
    n, pos, kind = case['n'], case['pos'], case['kind']
    chunks = [good_chunk(rng, dtype, trail, 1 + (i % 2), i) for i in range(n)]
    if kind != 'iterraises':
        chunks[pos] = bad_chunk(kind, dtype, trail)
    expected = ref
    for c in chunks[:pos]:
        expected = np.concatenate([expected, c], axis=0).astype(dtype)
    raised = None

    def call():
        if case['api'] == 'append':
            a.append(chunks[0])
        elif kind == 'iterraises':
            a.iterappend(failing_iter(chunks, pos, source_exception(n + pos)))
        else:
            a.iterappend(iter(chunks))
    try:
        if case.get('inctx'):
            pre = good_chunk(rng, dtype, trail, 2, 40)
            expected = np.concatenate([ref, pre] + [c for c in chunks[:pos]], axis=0).astype(dtype)
            with a.open_array():
                a.append(pre)
                call()
        else:
            call()
    except Exception as e:
        raised = e
    res.count('mon.logic_faults')
    res.dim('context', 'inside open_array after an append' if case.get('inctx') else 'plain')
    res.count('mon.failure_oracle')
    for symptom, msg in oracle(D, path, a, expected, type(raised).__name__ if raised else None):
        res.fail(f'logic:{kind}:{symptom}:{case["start"]}',
                 f'{case["api"]} with {kind} at position {pos} of {n} on {case["start"]} {case["numtype"]}/{case["bo"]} '
                 f'array with trailing shape {trail}: {msg} (raised: {type(raised).__name__ if raised else None})', **case)
    if not res.fails and not case.get('inctx') and (n + pos) % 2 == 0:
        # ---- the SAME handle afterwards: a second append that fails after one completed chunk, then one that succeeds
        g1, g2 = good_chunk(rng, dtype, trail, 2, 60), good_chunk(rng, dtype, trail, 1, 61)
        raised2 = None
        try:
            a.iterappend(failing_iter([g1, g2], 1, source_exception(pos)))
        except Exception as e:
            raised2 = e
        expected = np.concatenate([expected, g1], axis=0).astype(dtype)
        res.count('mon.second_failure_same_handle')
        probs = oracle(D, path, a, expected, type(raised2).__name__ if raised2 else None)
        if not probs:
            try:
                a.append(g2)
                expected = np.concatenate([expected, g2], axis=0).astype(dtype)
                probs = oracle(D, path, a, expected, 'none-expected')
                probs = [p_ for p_ in probs if p_[0] != 'no-raise']
            except Exception as e:
                probs = [('valid-append-raised-after-failures', f'{type(e).__name__}: {str(e)[:160]}')]
        for symptom, msg in probs:
            res.fail(f'logic:second-failure:{symptom}', f'after the first failure ({kind}), a second failing iterappend and a valid '
                                                        f'append through the same handle: {msg}', **case)


def run_write(case, env, res, d):
    D = env.darr
    rng = env.rng('write', repr(sorted(case.items(), key=str)))
    trail = tuple(case['trail'])
    dtype = gens.dt(case['numtype'], case['bo'])
    rowbytes = dtype.itemsize * (int(np.prod(trail)) if trail else 1)
    base_rows = 0 if case['start'] == 'empty' else max(3, 16384 // rowbytes + 1)
    a, path, ref = make_start(env, d, case, rng, nonempty_rows=base_rows or None)
    base = ref.size * dtype.itemsize
    chunks = [good_chunk(rng, dtype, trail, case['rows'], i) for i in range(case['nchunks'])]
    cb = chunks[0].size * dtype.itemsize
    off = case['offset']
    completed = min(case['nchunks'], off // cb)
    expected = ref
    for c in chunks[:completed]:
        expected = np.concatenate([expected, c], axis=0).astype(dtype)

    def child():
        raised = None
        with FileSizeLimit(base + off):
            try:
                if case['api'] == 'append':
                    a.append(chunks[0])
                else:
                    a.iterappend(iter(chunks))
            except Exception as e:
                raised = f'{type(e).__name__}: {str(e)[:200]}'
        probs = oracle(D, path, a, expected, raised.split(':')[0] if raised else None)
        import os
        return {'raised': raised, 'problems': probs, 'filesize': os.path.getsize(path / 'arrayvalues.bin'),
                'reach': sorted(env.reach)}

    info = run_forked(child, timeout=120, faultlog_dir=str(env.scratch.root))
    res.count('mon.write_fault_children')
    bufclass = 'buffered-chunk' if cb < 4096 else 'large-chunk'
    where = 'first-chunk-of-empty-array' if (case['start'] == 'empty' and completed == 0) else \
        'partial-chunk' if off % cb else 'chunk-boundary'
    if info['status'] != 'ok':
        res.fail(f'write:child-{info["status"]}:{info.get("signame", "")}',
                 f'child running {case} ended with {info["status"]} {info.get("signame", "")}: {info["trace"][-400:]}', **case)
        return
    r = info['result']
    env.reach.update(r['reach'])
    res.count('mon.failure_oracle')
    res.dim('write_fault_class', f'{bufclass}/{where}')
    for symptom, msg in r['problems']:
        res.fail(f'write:{bufclass}:{where}:{symptom}',
                 f'{case["api"]} of {case["nchunks"]} chunks of {cb} bytes to a {case["start"]} {case["numtype"]} array '
                 f'(data file {base} bytes), growth refused {off} bytes in ({completed} chunks fit): {msg} '
                 f'(raised: {r["raised"]}; data file now {r["filesize"]} bytes)', **case)
