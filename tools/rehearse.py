#!/usr/bin/env python3
"""tools/rehearse.py -- single-token rehearsal mutants for the generated-code checks (C06/C07): each is applied to a
scratch worktree and the quick check must report it.  Prints one line per mutant; exit 1 if any survives."""
import os, subprocess, sys
A, R = 'darr/readcodearray.py', 'darr/readcoderaggedarray.py'
MUTANTS = [
 ('C06', A, "'int16': ('integer()', 2, 'TRUE'),", "'int16': ('integer()', 4, 'TRUE'),", 'R size of int16'),
 ('C06', A, "endianness_matlab = {'little': 'ieee-le',\n                     'big': 'ieee-be'}", "endianness_matlab = {'little': 'ieee-be',\n                     'big': 'ieee-le'}", 'Matlab byte orders swapped'),
 ('C06', A, "'float32': 'Float32',", "'float32': 'Float64',", 'Julia float32 token'),
 ('C06', A, "'uint16': 12,", "'uint16': 13,", 'IDL uint16 code'),
 ('C06', A, "'float32': 'Real32',", "'float32': 'Real64',", 'Mathematica float32 token'),
 ('C06', A, "    shape = list(shape)[::-1]  # darr is always C order, Scilab is F order", "    shape = list(shape)  # darr is always C order, Scilab is F order", 'Scilab dims not reversed'),
 ('C06', A, "        shape = list(shape[::-1])\n        ct += f'{varname} := ArrayTools[Reshape]", "        shape = list(shape)\n        ct += f'{varname} := ArrayTools[Reshape]", 'Maple dims not reversed'),
 ('C06', A, "    n = np.prod(shape)\n    ct = f'fileid <- file", "    n = np.prod(shape) - 1\n    ct = f'fileid <- file", 'R count off by one'),
 ('C06', A, "endianness_mathematica = {'little': '-1',", "endianness_mathematica = {'little': '+1',", 'Mathematica little-endian token'),
 ('C06', A, "'uint8': 'uc',", "'uint8': 'c',", 'Scilab uint8 token'),
 ('C06', A, "{varname}.reshape({shape}, order='C')", "{varname}.reshape({shape}, order='F')", 'numpy reshape order'),
 ('C06', A, "'int16': 'h',", "'int16': 'H',", 'python int16 typecode'),
 ('C06', A, "    shape = shape[::-1]  # darr is always C order, Julia is F order\n    dimstr", "    shape = shape  # darr is always C order, Julia is F order\n    dimstr", 'Julia1 dims not reversed'),
 ('C06', A, "data_dims={shape}, endian=\"{endianness}\")", "data_dims={shape}, endian=\"big\")", 'IDL endian constant'),
 ('C07', R, "getsubarray = @(k) v({dims}i(1,k)+1:i(2,k));", "getsubarray = @(k) v({dims}i(1,k):i(2,k));", 'Matlab accessor without +1'),
 ('C07', R, "starti <- i[1,k] + 1  # R starts counting from 1", "starti <- i[1,k]  # R starts counting from 1", 'R accessor without +1'),
 ('C07', R, "starti = i[1,k]+1  # Julia starts counting from 1", "starti = i[2,k]+1  # Julia starts counting from 1", 'Julia accessor wrong row'),
 ('C07', R, "sa=v[{dims}i[0,k]:i[1,k]-1]", "sa=v[{dims}i[0,k]:i[1,k]]", 'IDL accessor without -1'),
 ('C07', R, "    dims = len(dra._arrayinfo['atom']) * ':,'\n    rca = f'/* create an anonymous", "    dims = max(0, len(dra._arrayinfo['atom']) - 1) * ':,'\n    rca = f'/* create an anonymous", 'Scilab one placeholder too few'),
 ('C07', R, "       k, position = 3, 'third'\n    elif len(dra) == 2:\n        k, position = 2, 'second'\n    else:\n        k, position = 1, 'first'\n    dims = len(dra._arrayinfo['atom']) * ':,'\n    rca = f'% create", "       k, position = 4, 'third'\n    elif len(dra) == 2:\n        k, position = 2, 'second'\n    else:\n        k, position = 1, 'first'\n    dims = len(dra._arrayinfo['atom']) * ':,'\n    rca = f'% create", 'Matlab example index'),
 ('C07', R, "endi = i[[l,2]];", "endi = i[[l,1]];", 'Mathematica end column'),
 ('C07', R, "v({dims} i(1,k) + 1 .. i(2,k));", "v({dims} i(1,k) .. i(2,k));", 'Maple accessor without +1'),
 ('C07', R, "    return (v[starti:endi])", "    return (v[starti:endi+1])", 'numpy? (R vector branch end+1)'),
 ('C07', R, "'    return v[starti:endi]\\n'", "'    return v[starti:endi + 1]\\n'", 'numpymemmap accessor end+1'),
]
env = dict(os.environ, PYTHONDONTWRITEBYTECODE='1')
def sh(c, **k): return subprocess.run(c, shell=True, text=True, capture_output=True, env=env, **k)
surv = []
for i, (pid, f, old, new, what) in enumerate(MUTANTS):
    wt = f'/tmp/rehearse_{i}'
    sh(f'git -C /repo worktree remove --force {wt}')
    assert sh(f'git -C /repo worktree add -q --detach {wt} HEAD').returncode == 0
    try:
        p = os.path.join(wt, f); s = open(p).read()
        if old not in s:
            print(f'{pid} [{what}]: PATTERN NOT FOUND'); surv.append(what); continue
        open(p, 'w').write(s.replace(old, new, 1))
        r = subprocess.run(f'cd /verif && VERIF_EVIDENCE_DIR=/tmp/seedrun_evidence ./check {pid} --tier quick', shell=True, text=True,
                           capture_output=True, env=dict(env, DARR_REPO=wt))
        line = next((l.strip() for l in r.stdout.splitlines() if 'refuted [' in l), '')
        ok = r.returncode == 1 and 'VIOLATION property=' in r.stdout
        print(f'{pid} [{what}]: {"caught" if ok else "SURVIVED"} {line[:150]}')
        if not ok: surv.append(what)
    finally:
        sh(f'git -C /repo worktree remove --force {wt}')
print('survivors:', surv)
sys.exit(1 if surv else 0)
