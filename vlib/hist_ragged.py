"""RaggedArray history engine: executes an operation sequence on a real Darr
RaggedArray and evaluates, after every step, the enabled monitors:

 'model'   live + fresh handle vs. list-of-ndarrays model (C04)
 'ifd'     independent structural decode of the directory (C05)
 'readme'  the three README files are current (C08)
"""
import os
import random
import re
from pathlib import Path

import numpy as np

from . import decoder, gens
from .common import spelled_path
from .monitors import bits_equal, check_array_readme, describe, same_dtype

REJECT = object()


class Partial:
    """The call must raise; afterwards the ragged array holds `state` (C10: original + completed subarrays)."""
    def __init__(self, state):
        self.state = state

ALPHABET = ['app0', 'app1', 'app3', 'applist', 'iter2', 'iter0', 'trunc0', 'trunc1', 'truncm1', 'trunclen',
            'modecycle', 'reopen', 'ctx:app1+app3']
EXTRA = ['ctx:app3+iter2+app0', 'appswapped', 'appswapped', 'iterfromragged', 'iterfail_atom', 'iterfail_raise', 'iterfail_first', 'appbadrank', 'appbadatom', 'appother', 'itergen', 'truncmid', 'trunclen1', 'truncstr', 'truncbelow', 'truncfloat', 'md_set', 'md_pop',
         'copy', 'recreate', 'app1', 'app3', 'iter2']
PATTERNS = {'two': [2, 1], 'withempty': [2, 0], 'onlyempty': [0], 'seven': [1, 0, 0, 4, 2, 0, 3], 'one': [3],
            'five': [1, 2, 0, 1, 1], 'six': [1, 1, 1, 1, 0, 2],
            'forty': [1 + (k % 3) for k in range(40)]}
ATOMS = [(), (2,), (1, 3), (2, 1)]


def item(rng, dtype, atom, k):
    return gens.random_values(rng, dtype, (k,) + tuple(atom))


def swapped(x):
    """What is handed to Darr for a model item: for 3 in 10 items (decided by the item's bytes, no random draw) a copy
    of the same values with the same numeric type in the OPPOSITE byte order.  The model keeps the item in the model's
    dtype (seed C02-21: a conversion skipped when dtype.name matches writes unswapped bytes)."""
    import zlib
    if x.dtype.itemsize > 1 and zlib.crc32(x.tobytes()) % 10 < 3:
        return x.astype(x.dtype.newbyteorder('S'))
    return x


def build(op, model, rng, dtype, atom):
    """-> (expected new model list or REJECT, do(D, ra, path) -> handle)"""
    n = len(model)
    if op in ('app0', 'app1', 'app3'):
        x = item(rng, dtype, atom, int(op[3]))
        xs = swapped(x)
        return model + [x], lambda D, ra, p: (ra.append(xs), ra)[1]
    if op == 'applist':
        x = gens.safe_source(rng, 'int64', dtype, (2,) + atom)
        lst = x.tolist()
        return model + [np.asarray(lst, dtype=dtype).reshape((2,) + atom)], lambda D, ra, p: (ra.append(lst), ra)[1]
    if op == 'appother':
        od = gens.other_dtype(rng, dtype)
        x = gens.relayout(gens.safe_source(rng, od, dtype, (3,) + atom), rng.choice(['F', 'strided', 'C']))
        return model + [np.asarray(x).astype(dtype)], lambda D, ra, p: (ra.append(x), ra)[1]
    if op == 'iterfromragged':     # the iterable handed to iterappend is itself a RaggedArray object
        small = [((np.arange(k * (int(np.prod(atom)) if atom else 1)) % 50) + 1).reshape((k,) + tuple(atom)) for k in (2, 0, 1)]
        items = [x.astype(dtype) for x in small]
        sdt = rng.choice([dtype, gens.dt(rng.choice(gens.T13), rng.choice(gens.BO))])    # the source may hold another type
        how = rng.choice(['object', 'iter_arrays'])

        def do(D, ra, p):
            src = D.asraggedarray(p.parent / (p.name + '_src'), [x.astype(sdt) for x in small], dtype=sdt, overwrite=True)
            ra.iterappend(src if how == 'object' else src.iter_arrays())
            return ra
        return model + items, do
    if op == 'appswapped':      # same numeric type as the array, opposite byte order
        x = item(rng, dtype, atom, 2)
        sw = x.astype(x.dtype.newbyteorder('S'))
        return model + [x], lambda D, ra, p: (ra.append(sw), ra)[1]
    if op == 'appbadrank':      # an item one dimension short (a single atom-shaped row, or a scalar)
        x = np.zeros(atom, dtype=dtype).tolist() if atom else 5
        return REJECT, lambda D, ra, p: (ra.append(x), ra)[1]
    if op == 'appbadatom':
        bad = (2,) + (atom[:-1] + (atom[-1] + 1,) if atom else (2,))
        x = np.zeros(bad, dtype=dtype)
        return REJECT, lambda D, ra, p: (ra.append(x), ra)[1]
    if op in ('iterfail_atom', 'iterfail_raise', 'iterfail_first'):
        g1, g0 = item(rng, dtype, atom, 2), item(rng, dtype, atom, 0)
        bad = np.zeros((2,) + (atom[:-1] + (atom[-1] + 1,) if atom else (2,)), dtype=dtype)
        if op == 'iterfail_atom':
            seq, done = [g1, g0, bad, g1], [g1, g0]
        elif op == 'iterfail_first':
            seq, done = [bad, g1], []
        else:
            seq, done = None, [g0, g1]

        def gen():
            yield g0
            yield g1
            raise RuntimeError('source failed')
        return Partial(model + done), lambda D, ra, p: (ra.iterappend(iter(seq) if seq is not None else gen()), ra)[1]
    if op.startswith('ctx:'):   # several appends while the handle's own open_arrays() context stays open
        parts = op[4:].split('+')
        items, calls = [], []
        for q in parts:
            if q == 'iter2':
                pair = [item(rng, dtype, atom, 2), item(rng, dtype, atom, 1)]
                items += pair
                calls.append(('iter', pair))
            else:
                x = item(rng, dtype, atom, int(q[3]))
                items.append(x)
                calls.append(('app', x))

        read_inside = rng.random() < 0.5

        def do(D, ra, p):
            with ra.open_arrays():
                for kind, arg in calls:
                    if kind == 'iter':
                        ra.iterappend(c for c in arg)
                    else:
                        ra.append(arg)
                    if read_inside:     # what the handle shows inside its own open context
                        last = arg[-1] if kind == 'iter' else arg
                        try:
                            do.inside.append((np.asarray(ra[len(ra) - 1]), last))
                        except Exception as e:
                            do.inside.append((e, last))
            return ra
        do.inside = []
        return model + items, do
    if op == 'iter2':
        x, y = item(rng, dtype, atom, 2), item(rng, dtype, atom, 0)
        xs = swapped(x)
        return model + [x, y], lambda D, ra, p: (ra.iterappend([xs, y]), ra)[1]
    if op == 'iter0':
        return list(model), lambda D, ra, p: (ra.iterappend([]), ra)[1]
    if op == 'itergen':
        parts = [gens.safe_source(rng, 'int64', dtype, (1,) + atom).tolist(), item(rng, dtype, atom, 2),
                 item(rng, dtype, atom, 0)]
        new = model + [np.asarray(q, dtype=dtype).reshape((-1,) + atom) for q in parts]
        return new, lambda D, ra, p: (ra.iterappend(q for q in parts), ra)[1]
    if op.startswith('trunc'):
        idx = {'trunc0': 0, 'trunc1': 1, 'truncm1': -1, 'truncmid': n // 2, 'trunclen': n, 'trunclen1': n + 1,
               'truncstr': 'x', 'truncbelow': -(n + 2), 'truncfloat': 1.0}[op]
        if type(idx) is int and 0 <= len(model[:idx]) < n:
            exp = list(model[:idx])
        else:
            exp = REJECT
        return exp, lambda D, ra, p: (D.truncate_raggedarray(ra, idx), ra)[1]
    if op == 'modecycle':
        def do(D, ra, p):
            ra.accessmode = 'r'
            ra.accessmode = 'r+'
            return ra
        return list(model), do
    if op == 'reopen':
        return list(model), lambda D, ra, p: D.RaggedArray(p, accessmode='r+')
    if op == 'md_set':
        k, v = rng.choice('ab'), rng.choice([1, 'x', [1, 2]])

        def do(D, ra, p):
            ra.metadata[k] = v
            return ra
        return list(model), do
    if op == 'md_pop':
        def do(D, ra, p):
            for k in list(ra.metadata.keys())[:1]:
                ra.metadata.pop(k)
            return ra
        return list(model), do
    if op == 'copy':
        def do(D, ra, p):
            q = p.parent / (p.name + 'c')
            new = ra.copy(q, accessmode='r+')
            return new
        do.newpath = True
        return list(model), do
    if op == 'recreate':
        lens = rng.choice([[1], [2, 0, 1], [0, 0], [1, 1, 1, 1, 1, 1, 1, 2]])
        new = [item(rng, dtype, atom, k) for k in lens]
        return new, lambda D, ra, p: D.asraggedarray(p, [x.copy() for x in new], accessmode='r+', overwrite=True,
                                                     indextype=str(ra._indices.dtype.name))
    raise ValueError(op)


# ------------------------------------------------------------------ monitors

NONINT = [1.0, 'a', None, True, slice(0, 1), (0,), [0]]
ITERGRID = [(0, None, 1), (1, None, 1), (0, None, 2), (0, 0, 1), (-1, None, 1), (0, 'n', 1), (0, 'n+1', 1),
            ('n', None, 1), (0, -1, 1), ('n-1', -1, -1), (1, 'n', 2), (0, None, 0)]


def check_model(res, tag, ra, model, dtype, atom):
    res.count(f'mon.model_{tag}')
    n = len(model)
    size = int(sum(m.size for m in model))
    try:
        got = {'len': len(ra), 'narrays': ra.narrays, 'atom': tuple(ra.atom), 'size': ra.size}
        exp = {'len': n, 'narrays': n, 'atom': tuple(atom), 'size': size}
        for k in exp:
            if got[k] != exp[k]:
                res.fail(f'model:{tag}-{k}', f'{tag} handle {k} = {got[k]!r}, model {exp[k]!r}')
                return False
        if not same_dtype(ra.dtype, dtype):
            res.fail(f'model:{tag}-dtype', f'{tag} handle dtype {np.dtype(ra.dtype).str}, model {np.dtype(dtype).str}')
            return False
        for k in range(-n - 1, n + 1):
            try:
                v = ('ok', ra[k])
            except IndexError:
                v = ('IndexError',)
            except Exception as e:
                v = (type(e).__name__,)
            if -n <= k < n:
                if v[0] != 'ok':
                    res.fail(f'model:{tag}-getitem-raised:{v[0]}', f'{tag} handle ra[{k}] raised {v[0]} (len {n})')
                    return False
                if not bits_equal(np.asarray(v[1]), model[k]):
                    res.fail(f'model:{tag}-subarray-values',
                             f'{tag} handle ra[{k}] = {describe(v[1])}, model {describe(model[k])}')
                    return False
            elif v[0] != 'IndexError':
                res.fail(f'model:{tag}-out-of-range-index:{v[0]}',
                         f'{tag} handle ra[{k}] with len {n}: {v[0]} instead of IndexError')
                return False
        for bad in NONINT:
            try:
                ra[bad]
                v = 'ok'
            except TypeError:
                v = 'TypeError'
            except Exception as e:
                v = type(e).__name__
            if v != 'TypeError':
                res.fail(f'model:{tag}-nonint-index:{type(bad).__name__}:{v}',
                         f'{tag} handle ra[{bad!r}]: {v} instead of TypeError')
                return False
        np64 = np.int64(0)
        if n:
            if not bits_equal(np.asarray(ra[np64]), model[0]):
                res.fail(f'model:{tag}-npint-index', 'ra[np.int64(0)] differs from model[0]')
                return False
            # NumPy integer scalars of narrow types are legitimate indices too (k must not be used in arithmetic that wraps)
            for T in (np.uint8, np.int8, np.uint16):
                for k in sorted({0, n - 1, min(n - 1, 17), min(n - 1, 33)}):
                    try:
                        got = np.asarray(ra[T(k)])
                    except Exception as e:
                        res.fail(f'model:{tag}-npint-index-raised:{T.__name__}:{type(e).__name__}', f'ra[np.{T.__name__}({k})] with len {n} raised {e!r}')
                        return False
                    if not bits_equal(got, model[k]):
                        res.fail(f'model:{tag}-npint-index:{T.__name__}', f'ra[np.{T.__name__}({k})] differs from model[{k}]')
                        return False
        for (s, e, st) in ITERGRID:
            sv = {'n': n, 'n-1': n - 1}.get(s, s)
            ev = {'n': n, 'n+1': n + 1}.get(e, e)
            exp_items, exp_exc = [], None
            try:
                for i in range(sv, n if ev is None else ev, st):
                    exp_items.append(model[i])
            except (IndexError, ValueError) as ex:
                exp_exc = type(ex).__name__
            got_items, got_exc = [], None
            try:
                for x in ra.iter_arrays(startindex=sv, endindex=ev, stepsize=st):
                    got_items.append(x)
            except Exception as ex:
                got_exc = type(ex).__name__
            if got_exc != exp_exc or len(got_items) != len(exp_items) or not all(
                    bits_equal(np.asarray(g), m) for g, m in zip(got_items, exp_items)):
                res.fail(f'model:{tag}-iter_arrays',
                         f'{tag} handle iter_arrays({sv},{ev},{st}) with len {n}: {len(got_items)} items/{got_exc}, '
                         f'model {len(exp_items)} items/{exp_exc}')
                return False
    except Exception as e:
        res.fail(f'model:{tag}-handle-raised:{type(e).__name__}', f'{tag} handle: {type(e).__name__}: {e}')
        return False
    return True


def check_ifd(res, D, path, indextype=None):
    """C05's deciding monitor."""
    res.count('mon.ifd_ragged')
    try:
        subs, info = decoder.decode_ragged(path)
    except decoder.FormatError as e:
        first = str(e).split(':')[0] if str(e).startswith(('values/', 'indices/')) else 'top-or-structure'
        res.fail(f'ifd:format-error:{first}', f'independent decoder: {e}')
        return None
    res.dim('decoded_structure', f"n={min(info['n'], 9)},empty={min(info['nempty'], 4)},atomrank={len(info['atom'])}")
    res.dim('decoded_indextype', info['indextype'])
    if info['orphan_values']:
        res.count('obs.orphan_values_with_no_subarrays')
    try:
        fresh = D.RaggedArray(path)
        if len(fresh) != info['n']:
            res.fail('ifd:len-differs-from-api', f'files give {info["n"]} subarrays, API len {len(fresh)}')
            return None
        for k, s in enumerate(subs):
            if not bits_equal(np.asarray(fresh[k]), np.ascontiguousarray(s)):
                res.fail('ifd:subarray-differs-from-api',
                         f'subarray {k} from the raw files {describe(s)} != ra[{k}] {describe(fresh[k])}')
                return None
    except Exception as e:
        res.fail(f'ifd:api-unreadable:{type(e).__name__}', f'files are well-formed but RaggedArray raised {type(e).__name__}: {e}')
        return None
    return subs, info


RAGGED_LANGS = ['darr', 'numpymemmap', 'R', 'idl', 'julia', 'maple', 'matlab', 'mathematica', 'scilab']


def check_readme(res, D, path):
    """C08 for a ragged array: top-level README and both sub-array READMEs."""
    res.count('mon.readme_ragged')
    rp = path / 'README.txt'
    if not rp.is_file():
        res.fail('readme:ragged-missing', f'{rp} missing')
        return False
    txt = rp.read_bytes().decode('utf-8', errors='replace')
    try:
        fresh = D.RaggedArray(path)
        import darr.raggedarray as dr
        regen = dr.readcodetxt(fresh)
    except Exception as e:
        res.fail('readme:ragged-cannot-regenerate', f'{type(e).__name__}: {e}')
        return False
    if txt != regen:
        la, lb = txt.splitlines(), regen.splitlines()
        i = next((k for k, (x, y) in enumerate(zip(la, lb)) if x != y), min(len(la), len(lb)))
        sec = 'count' if 'sequence of' in (la[i] if i < len(la) else '') else \
            'dimension-listing' if re.match(r'\s+(\d+: \(|\.\.\.)', la[i] if i < len(la) else '') or \
            re.match(r'\s+(\d+: \(|\.\.\.)', lb[i] if i < len(lb) else '') else 'other'
        res.fail(f'readme:ragged-stale:{sec}',
                 f'ragged README differs from text generated from a fresh handle at line {i}: on disk '
                 f'{la[i] if i < len(la) else "<eof>"!r} vs current {lb[i] if i < len(lb) else "<eof>"!r}')
        return False
    # independent reading of the statements the README makes
    try:
        subs, info = decoder.decode_ragged(path)
    except decoder.FormatError as e:
        res.fail('readme:ragged-undecodable', str(e))
        return False
    flat = ' '.join(txt.split())
    m = re.search(r'sequence of (\d+) subarrays, each of which is (\d+)-dimensional', flat)
    m2 = re.search(r'consists of (\w+) numbers', flat)
    if not m or not m2 or int(m.group(1)) != info['n'] or int(m.group(2)) != len(info['atom']) + 1 \
            or m2.group(1) != info['numtype']:
        res.fail('readme:ragged-states-wrong-count-or-type',
                 f'README says {m.groups() if m else None}/{m2.groups() if m2 else None}; files: n={info["n"]}, '
                 f'rank={len(info["atom"]) + 1}, {info["numtype"]}')
        return False
    listed = {int(a): tuple(int(x) for x in b.replace(' ', '').split(',') if x)
              for a, b in re.findall(r'^\s+(\d+): \(([^)]*)\)\s*$', txt, flags=re.M)}
    n = info['n']
    want = {k: (len(subs[k]),) + tuple(info['atom']) for k in list(range(min(n, 5))) + ([n - 1] if n > 5 else [])}
    if listed != want:
        res.fail('readme:ragged-dimension-listing-wrong', f'README lists {listed}, files give {want}')
        return False
    has_dots = bool(re.search(r'^\s+\.\.\.\s*$', txt, flags=re.M))
    if has_dots != (n > 6):
        res.fail('readme:ragged-ellipsis-line', f'"..." line present={has_dots} with {n} subarrays')
        return False
    for lang in RAGGED_LANGS:
        code = fresh.readcode(lang)
        if code is not None and code not in txt:
            res.fail('readme:ragged-snippet-missing', f'current readcode({lang!r}) not in README')
            return False
    for sub in ('values', 'indices'):
        if not check_array_readme(res, D, path / sub, mechprefix=f'readme:{sub}'):
            return False
    return True


# -------------------------------------------------------------------- engine

def make_start(env, D, path, st, rng):
    dtype = gens.dt(st['numtype'], st['bo'])
    atom = tuple(st['atom'])
    md = {'m': 1} if st.get('md') else None
    if st['kind'] == 'create':
        ra = D.create_raggedarray(path, atom=atom, dtype=dtype, indextype=st['indextype'], metadata=md,
                                  accessmode='r+')
        model = []
    else:
        model = [item(rng, dtype, atom, k) for k in PATTERNS[st['pattern']]]
        import zlib
        if zlib.crc32(repr(sorted(st.items(), key=str)).encode()) % 4 == 0:
            # the handle comes in the default mode r and is made writable by assignment afterwards
            D.asraggedarray(path, [m.copy() for m in model], dtype=dtype if st.get('dtypearg') else None,
                            indextype=st['indextype'], metadata=md, accessmode='r')
            ra = D.RaggedArray(path)        # default mode: r
            assert ra.accessmode == 'r'
            ra.accessmode = 'r+'
        else:
            ra = D.asraggedarray(path, [m.copy() for m in model], dtype=dtype if st.get('dtypearg') else None,
                                 indextype=st['indextype'], metadata=md, accessmode='r+')
    return ra, model, dtype, atom


def run(env, res, case, monitors):
    D = env.darr
    st = case['start']
    d = env.scratch.new('g')
    apipath, path = spelled_path(d, 'ra', case['vseed'])
    if apipath != path:
        res.count('paths.symlink_dotdot')
    try:
        rng0 = random.Random(f"{case['vseed']}:start")
        try:
            ra, model, dtype, atom = make_start(env, D, apipath, st, rng0)
        except Exception as e:
            res.fail(f'start:creation-raised:{type(e).__name__}',
                     f'creating the start state {st} at {"<symlink>/../ra" if apipath != path else "ra"} raised '
                     f'{type(e).__name__}: {str(e)[:200]}', pathform='symlink/..' if apipath != path else 'plain')
            res.nontrivial = True
            return
        nchanges = 0
        want_indextype = st['indextype']
        for i, op in enumerate([None] + list(case['ops'])):
            rng = random.Random(f"{case['vseed']}:{i}")
            res.count('steps')
            if op is not None:
                res.count(f'op.{op}')
                expected, do = build(op, model, rng, dtype, atom)
                raised = None
                try:
                    new = do(D, ra, apipath)
                except Exception as e:
                    raised = e
                if 'model' in monitors and getattr(do, 'inside', None):
                    for got, want in do.inside:
                        res.count('mon.read_inside_context')
                        if isinstance(got, Exception) or not bits_equal(got, want):
                            res.fail('model:inside-context-read',
                                     f'step {i} {op}: inside open_arrays(), the last subarray reads as '
                                     f'{describe(got) if not isinstance(got, Exception) else repr(got)[:120]}, appended was {describe(want)}')
                            break
                if isinstance(expected, Partial):
                    res.count('mon.failing_appends')
                    if raised is None and 'model' in monitors:
                        res.fail(f'model:failing-append-no-raise:{op}', f'step {i} {op}: failing iterappend returned normally')
                    raised = None
                    new = ra
                    expected = expected.state
                if expected is REJECT:
                    res.count('mon.rejected_calls')
                    if raised is None:
                        if 'model' in monitors:
                            res.fail(f'model:rejected-call-no-raise:{op}', f'step {i} {op}: must be rejected, returned normally')
                        else:
                            # not judged here, but the state it left behind still is: run the
                            # structural monitors once more, then end the history (model unknown)
                            if 'ifd' in monitors:
                                check_ifd(res, D, path)
                            if 'readme' in monitors and not res.fails:
                                check_readme(res, D, path)
                            for f in res.fails:
                                f['witness'].update({'step': i, 'op': op, 'ops_so_far': case['ops'][:i], 'start': st,
                                                     'note': 'after a call that should have been rejected but returned'})
                            res.nontrivial = nchanges >= 1
                            return
                else:
                    if raised is not None:
                        if 'model' in monitors:
                            res.fail(f'model:valid-call-raised:{op}:{type(raised).__name__}',
                                     f'step {i} {op} on {len(model)} subarrays: valid call raised '
                                     f'{type(raised).__name__}: {str(raised)[:160]}', nsub=len(model))
                        else:
                            if 'ifd' in monitors:
                                check_ifd(res, D, path)
                            if 'readme' in monitors and not res.fails:
                                check_readme(res, D, path)
                            for f in res.fails:
                                f['witness'].update({'step': i, 'op': op, 'ops_so_far': case['ops'][:i], 'start': st,
                                                     'note': f'after a valid call raised {type(raised).__name__}'})
                        res.nontrivial = nchanges >= 1
                        return
                    ra = new
                    if getattr(do, 'newpath', False):
                        apipath = ra.path
                        path = Path(os.path.realpath(ra.path))
                        want_indextype = None   # the statement does not fix the index type of a copy
                    if len(expected) != len(model) or op in ('recreate',):
                        nchanges += 1
                    model = expected
                if res.fails:
                    break
            omode = case.get('observe', 'every')
            last = i == len(case['ops'])
            if not res.fails and not last and (omode == 'end' and i > 0 or omode == 'sparse' and
                                               random.Random(f"{case['vseed']}:o{i}").random() < 0.7):
                res.count('steps_unobserved')      # see hist_array: observation must not refresh caches
                continue
            if 'model' in monitors:
                ok = check_model(res, 'live', ra, model, dtype, atom)
                if ok:
                    try:
                        freshh = D.RaggedArray(path)
                    except Exception as e:
                        res.fail(f'model:fresh-open-failed:{type(e).__name__}', f'RaggedArray(path) raised {type(e).__name__}: {str(e)[:200]}')
                        ok = False
                    else:
                        ok = check_model(res, 'fresh', freshh, model, dtype, atom)
                if ok and want_indextype is not None:
                    res.count('mon.indextype_stored')
                    try:
                        stored = decoder.read_descr(path / 'indices').get('numtype')
                    except decoder.FormatError:
                        stored = None
                    if stored != want_indextype:
                        res.fail(f'model:indextype-not-stored:{st["kind"]}',
                                 f'requested indextype {st["indextype"]}, indices/arraydescription.json says {stored}')
            if 'ifd' in monitors and not res.fails:
                check_ifd(res, D, path)
            if 'readme' in monitors and not res.fails:
                check_readme(res, D, path)
            if res.fails:
                for f in res.fails:
                    f['witness'].update({'step': i, 'op': op, 'ops_so_far': case['ops'][:i], 'start': st,
                                         'nsub_after': len(model)})
                break
        res.nontrivial = nchanges >= 1
    finally:
        env.scratch.drop(d)


def sig_of(case):
    st = case['start']
    return repr((st['kind'], st.get('pattern'), tuple(st['atom']), st['numtype'], st['bo'], st['indextype'],
                 tuple(case['ops'])))


def history_cases(pid, tier, seed, nlong_quick, nlong_thorough, L_quick=2, L_thorough=3):
    """Shared case generator: bounded-exhaustive short sequences + random long ones."""
    import itertools
    combos = [(t, b) for t in gens.T13 for b in gens.BO]
    L = L_quick if tier == 'quick' else L_thorough
    idx = 0
    starts = [('as', 'two', ()), ('as', 'withempty', ()), ('as', 'onlyempty', (2,)), ('as', 'seven', (1, 3)),
              ('as', 'two', (2, 1)), ('as', 'five', ()), ('as', 'six', (2,)), ('as', 'forty', ())]
    for length in range(1, L + 1):
        for kind, pat, atom in starts:
            for ops in itertools.product(ALPHABET, repeat=length):
                nt, bo = combos[(idx + seed) % len(combos)]
                it = gens.INDEXTYPES[(idx // 3) % len(gens.INDEXTYPES)]
                idx += 1
                yield {'start': {'kind': kind, 'pattern': pat, 'atom': list(atom), 'numtype': nt, 'bo': bo,
                                 'indextype': it, 'md': idx % 5 == 0},
                       'ops': list(ops), 'vseed': f'{pid}:{seed}:{idx}',
                       'observe': 'end' if length > 1 and idx % 3 == 0 else 'every'}
    # create_raggedarray starts are ~1 s each: a sparse sample
    ncreate = 8 if tier == 'quick' else 60
    rng = random.Random(f'{pid}:{seed}:create')
    for k in range(ncreate):
        nt, bo = combos[(k * 5 + seed) % len(combos)]
        yield {'start': {'kind': 'create', 'atom': list(ATOMS[k % 4]), 'numtype': nt, 'bo': bo,
                         'indextype': gens.INDEXTYPES[k % 7], 'md': k % 2 == 0},
               'ops': [rng.choice(ALPHABET + EXTRA) for _ in range(rng.randint(0, 8))], 'vseed': f'{pid}:{seed}:c{k}'}
    rng = random.Random(f'{pid}:{seed}:long')
    allops = ALPHABET + EXTRA
    for k in range(nlong_quick if tier == 'quick' else nlong_thorough):
        nt, bo = combos[k % len(combos)]
        yield {'start': {'kind': 'as', 'pattern': rng.choice(list(PATTERNS)), 'atom': list(rng.choice(ATOMS)),
                         'numtype': nt, 'bo': bo, 'indextype': rng.choice(gens.INDEXTYPES[2:]), 'md': k % 3 == 0,
                         'dtypearg': k % 2 == 0},
               'ops': [rng.choice(allops) for _ in range(rng.randint(4, 25))], 'vseed': f'{pid}:{seed}:L{k}',
               'observe': 'sparse' if k % 2 else 'every'}
