"""C07 — generated read code for RaggedArrays extracts every subarray correctly."""
import os
import random
import re

import numpy as np

from .. import gens, langsem
from ..common import Result
from ..monitors import bits_equal, describe, same_dtype, snapshot, snapdiff
from .c06 import exec_in

PID = 'C07'
LEVEL = 'exploration'
RULE = ('enumeration of ragged program structures: 9 languages x 13 value types x 7 index types x 2 byte orders x atom rank '
        '0-3 (with length-1 axes) x subarray-length patterns {one, two with an empty one, three, seven with empties, all '
        'empty} (quick strides the value-type x index-type product, thorough takes all), random pairwise distinct values; '
        'for every program: offer rule, both read blocks (reference interpreters of C06), accessor template parsed and '
        'evaluated under the language\'s indexing rules for EVERY k, example statement consistency and existence; darr and '
        'numpymemmap snippets are executed for real; directory snapshot before/after; arrays with >= 3 subarrays are then truncated through the same live object and all '
        'programs are requested and checked again. Non-trivial = ragged array with >= 1 '
        'value and an offered program; distinct by (language, value type, index type, byte order, atom, pattern)')
EXHAUSTIVE = False
EXHAUSTIVE_PART = 'thorough tier enumerates the full value-type x index-type x byte-order x atom x pattern grid'
ASSUMPTIONS = ['foreign-language semantics are our transcription (DESIGN Appendix A)',
               'shapes are compared after removing singleton dimensions for column-major languages (R drop=TRUE, '
               'Matlab/Scilab trailing singletons are language behaviour)',
               'fixed-width overflow of index arithmetic in the target languages and the R > 2^31 values cut-off are not modelled']
ANCHORS = ['readcoderaggedarray:readcode', 'readcoderaggedarray:readcodedarr', 'readcoderaggedarray:readcodenumpymemmap',
           'readcoderaggedarray:readcoder', 'readcoderaggedarray:readcodematlab', 'readcoderaggedarray:readcodescilab',
           'readcoderaggedarray:readcodejulia', 'readcoderaggedarray:readcodeidl',
           'readcoderaggedarray:readcodemathematica', 'readcoderaggedarray:readcodemaple', 'raggedarray:RaggedArray.readcode']
REQUIRED = ['mon.after_truncate', 'mon.offer_rule', 'mon.accessor_k', 'mon.example_statement', 'mon.executed', 'mon.tree_unchanged',
            'mon.read_blocks']
MIN_NONTRIVIAL = {'quick': 5000, 'thorough': 30000}

PATTERNS = {'one': [3], 'two': [2, 0], 'three': [0, 2, 1], 'seven': [1, 0, 0, 4, 2, 0, 3], 'allempty': [0, 0, 0],
            'startswithfull': [4, 1]}
ATOMS = [(), (2,), (1, 3), (2, 1), (3, 1, 2)]


def cases(tier, seed):
    combos = [(v, i) for v in gens.T13 for i in gens.INDEXTYPES]
    k = 0
    for vi, (vt, it) in enumerate(combos):
        for bo in gens.BO:
            for atom in ATOMS:
                for pat in PATTERNS:
                    k += 1
                    if tier == 'quick' and (k + seed) % 3 != 0:
                        continue
                    yield {'vtype': vt, 'itype': it, 'bo': bo, 'atom': list(atom), 'pattern': pat}


def run_case(case, env):
    res = Result()
    D = env.darr
    rng = env.rng('c07', repr(sorted(case.items())))
    dtype = gens.dt(case['vtype'], case['bo'])
    atom = tuple(case['atom'])
    lens = PATTERNS[case['pattern']]
    d = env.scratch.new('r')
    try:
        path = d / 'ragged.darr'
        total = sum(lens)
        allvals = gens.distinct_values(rng, dtype, (max(total, 1),) + atom)
        model, pos = [], 0
        for n in lens:
            model.append(allvals[pos:pos + n].copy())
            pos += n
        ra = D.asraggedarray(path, [m.copy() for m in model], dtype=dtype, indextype=case['itype'])
        hasvalues = total > 0
        nsub = len(model)
        values = np.concatenate(model, axis=0).astype(dtype) if model else np.zeros((0,) + atom, dtype)
        starts = np.cumsum([0] + lens[:-1])
        indices = np.array([[s, s + n] for s, n in zip(starts, lens)], dtype=np.dtype(case['itype']))
        sigs = set()
        res.count('mon.offer_rule')
        want = {l for l in langsem.RAGGED_LANGS if langsem.offered_ragged(l, case['vtype'], case['itype'], total)}
        got = set(ra.readcodelanguages)
        if got != want:
            res.fail(f'offer:readcodelanguages:{"+".join(sorted(got ^ want))}',
                     f'values {case["vtype"]}, indices {case["itype"]}: readcodelanguages = {sorted(got)}, rule gives {sorted(want)}',
                     **case)
        for lang in langsem.RAGGED_LANGS:
            try:
                code = ra.readcode(lang)
            except Exception as e:
                res.fail(f'readcode-raised:{lang}:{type(e).__name__}', f'{e}', lang=lang, **case)
                continue
            should = lang in want
            if (code is not None) != should:
                res.fail(f'offer:{lang}:{"offered" if code else "withheld"}-against-rule',
                         f'{lang}: values {case["vtype"]}, indices {case["itype"]}: code is {"given" if code else "None"}, '
                         f'rule says {"supported" if should else "unsupported"}', lang=lang, **case)
                continue
            if code is None:
                continue
            if lang in ('darr', 'numpymemmap'):
                check_executed(res, lang, code, path, model, nsub, hasvalues, case)
            elif hasvalues:
                check_foreign(res, lang, code, path, model, values, indices, atom, case)
            if hasvalues:
                sigs.add((lang, case['vtype'], case['itype'], case['bo'], atom, case['pattern']))
        # ---- history on the SAME live object: truncate, then ask it for code again
        if nsub >= 3 and not res.fails:
            newn = 2 if (len(atom) + nsub) % 2 else 1
            D.truncate_raggedarray(ra, newn)
            model2 = model[:newn]
            total2 = sum(lens[:newn])
            values2 = np.concatenate(model2, axis=0).astype(dtype)
            indices2 = indices[:newn]
            res.count('mon.after_truncate')
            for lang in langsem.RAGGED_LANGS:
                code = ra.readcode(lang)
                if code is None:
                    continue
                n0 = len(res.fails)
                if lang in ('darr', 'numpymemmap'):
                    check_executed(res, lang, code, path, model2, newn, total2 > 0, case)
                elif total2 > 0:
                    check_foreign(res, lang, code, path, model2, values2, indices2, atom, case)
                for f in res.fails[n0:]:
                    f['mech'] = 'after-truncate:' + f['mech']
                    f['msg'] = f'after truncate_raggedarray(ra, {newn}) on the live object: ' + f['msg']
                if total2 > 0:
                    sigs.add((lang, case['vtype'], case['itype'], case['bo'], atom, case['pattern'], 'after-truncate'))
            # ---- ... then grow it back to the ORIGINAL number of subarrays with subarrays of other lengths and ask again
            #      (anything remembered per object under the old subarray count would now be wrong)
            if not res.fails:
                extra = [gens.distinct_values(rng, dtype, (1 + (k + newn) % 3,) + tuple(atom)) for k in range(nsub - newn)]
                ra.iterappend(x for x in extra)
                model3 = list(model2) + extra
                values3 = np.concatenate(model3, axis=0).astype(dtype)
                ends = np.cumsum([len(m) for m in model3])
                indices3 = np.stack([np.concatenate([[0], ends[:-1]]), ends], axis=1).astype(indices.dtype)
                res.count('mon.after_regrow')
                for lang in langsem.RAGGED_LANGS:
                    code = ra.readcode(lang)
                    if code is None:
                        continue
                    n0 = len(res.fails)
                    if lang in ('darr', 'numpymemmap'):
                        check_executed(res, lang, code, path, model3, nsub, True, case)
                    else:
                        check_foreign(res, lang, code, path, model3, values3, indices3, atom, case)
                    for f in res.fails[n0:]:
                        f['mech'] = 'after-regrow:' + f['mech']
                        f['msg'] = f'after truncating to {newn} and appending {nsub - newn} other subarrays through the live object: ' + f['msg']
                    sigs.add((lang, case['vtype'], case['itype'], case['bo'], atom, case['pattern'], 'after-regrow'))
        res.sig = {repr(s) for s in sigs}
        res.nontrivial = bool(sigs)
        res.evals = max(1, len(sigs))
        res.dim('vtype', case['vtype'])
        res.dim('itype', case['itype'])
        res.dim('atom', atom)
        res.dim('pattern', case['pattern'])
        return res
    finally:
        env.scratch.drop(d)


def example_ok(res, lang, ordinal, stated_k, call_k, nsub, origin, case):
    res.count('mon.example_statement')
    if ordinal not in langsem.ORD or langsem.ORD[ordinal] + origin != stated_k or stated_k != call_k:
        res.fail(f'example:{lang}:inconsistent',
                 f'{lang} example says "{ordinal} (k={stated_k})" but binds k={call_k} (index origin {origin})', lang=lang, **case)
        return False
    if not (origin <= call_k < nsub + origin):
        res.fail(f'example:{lang}:nonexistent-subarray',
                 f'{lang} example binds subarray k={call_k} of a ragged array with {nsub} subarrays', lang=lang, **case)
        return False
    return True


def check_executed(res, lang, code, path, model, nsub, hasvalues, case):
    res.count('mon.executed')
    before = snapshot(path)
    ex = re.search(r'example to (?:read|get) (?:the )?(\w+) \(k=(\d+)\)', code)
    src = code.replace('path_to_data_dir', str(path))
    err, ns = None, {}
    try:
        ns = exec_in(src, path)
    except Exception as e:
        err = e
    try:
        if hasvalues:
            if lang == 'darr':
                m = re.search(r'^sa = a\[(\d+)\]\s*$', code, flags=re.M)
                callk = int(m.group(1)) if m else None
            else:
                m = re.search(r'^sa = getsubarray\((\d+)\)\s*$', code, flags=re.M)
                callk = int(m.group(1)) if m else None
            if not ex or callk is None:
                res.fail(f'malformed:{lang}:no-example', f'{lang} snippet has no example statement\n{code}', lang=lang, **case)
            elif example_ok(res, lang, ex.group(1), int(ex.group(2)), callk, nsub, 0, case):
                if err is not None:
                    res.fail(f'executed-raised:{lang}:{type(err).__name__}', f'{lang} snippet raised {type(err).__name__}: {err}\n{code}',
                             lang=lang, **case)
                else:
                    sa = np.asarray(ns['sa'])
                    if not bits_equal(np.ascontiguousarray(sa), model[callk]):
                        res.fail(f'example:{lang}:binds-wrong-subarray', f'sa = {describe(sa)}, subarray {callk} is {describe(model[callk])}',
                                 lang=lang, **case)
                    if lang == 'numpymemmap':
                        for k in range(nsub):
                            res.count('mon.accessor_k')
                            g = np.asarray(ns['getsubarray'](k))
                            if not bits_equal(np.ascontiguousarray(g), model[k]):
                                res.fail(f'accessor:{lang}:wrong-subarray', f'getsubarray({k}) = {describe(g)}, expected {describe(model[k])}',
                                         lang=lang, **case)
                                break
                    else:
                        a = ns['a']
                        for k in range(nsub):
                            res.count('mon.accessor_k')
                            if not bits_equal(np.asarray(a[k]), model[k]):
                                res.fail(f'accessor:{lang}:wrong-subarray', f'a[{k}] differs', lang=lang, **case)
                                break
    finally:
        for name in ('i', 'v', 'sa'):
            val = ns.get(name)
            mm = getattr(val, '_mmap', None) if isinstance(val, np.memmap) else None
            if mm is not None:
                ns[name] = None
                del val
                try:
                    mm.close()
                except Exception:
                    pass
        ns.clear()
    res.count('mon.tree_unchanged')
    after = snapshot(path)
    if after != before:
        res.fail(f'run-changes-files:{lang}:{"with" if hasvalues else "without"}-values',
                 f'executing the {lang} snippet changed the ragged array: {snapdiff(before, after)}', lang=lang, **case)
        for rel, (kind, content) in before.items():
            if kind == 'f':
                (path / rel).write_bytes(content)


def check_foreign(res, lang, code, path, model, values, indices, atom, case):
    nsub = len(model)
    try:
        prog = langsem.parse_ragged_program(lang, code)
    except langsem.Malformed as e:
        res.fail(f'malformed:{lang}:{str(e)[:40]}', f'{lang} ragged program is malformed: {e}\n{code}', lang=lang, **case)
        return
    except langsem.WrongDenotation as e:
        res.fail(f'wrong-denotation:{lang}', f'{lang}: {e}\n{code}', lang=lang, **case)
        return
    res.count('mon.read_blocks')
    for spec, tok, name in ((prog['ispec'], 'indices/arrayvalues.bin', 'index'), (prog['vspec'], 'values/arrayvalues.bin', 'values')):
        if spec['file'] != tok:
            res.fail(f'path:{lang}:{name}', f'{lang} reads the {name} array from {spec["file"]!r}, expected {tok!r}', lang=lang, **case)
            return
    try:
        I = langsem.evaluate(prog['ispec'], lambda t: os.path.join(path, t))
        V = langsem.evaluate(prog['vspec'], lambda t: os.path.join(path, t))
    except langsem.WrongDenotation as e:
        res.fail(f'wrong-denotation:{lang}:read-block', f'{lang}: {e}\n{code}', lang=lang, **case)
        return
    rowmajor = lang in langsem.ROW_MAJOR
    expI = indices if rowmajor else indices.T
    expV = values if rowmajor else values.T
    if not (same_dtype(I.dtype, indices.dtype) and bits_equal(np.ascontiguousarray(I), np.ascontiguousarray(expI))):
        res.fail(f'wrong-index-array:{lang}', f'{lang} reads the index array as {describe(I)}, expected {describe(expI)}', lang=lang, **case)
        return
    if not (same_dtype(V.dtype, values.dtype) and V.shape == expV.shape
            and bits_equal(np.ascontiguousarray(V), np.ascontiguousarray(expV))):
        res.fail(f'wrong-values-array:{lang}', f'{lang} reads the values array with dims {V.shape} {V.dtype.str}, expected '
                 f'{expV.shape} {values.dtype.str}', lang=lang, **case)
        return
    acc = prog['acc']
    origin = acc['origin']
    if not example_ok(res, lang, prog['ordinal'], prog['stated_k'], prog['call_k'], nsub, origin, case):
        return
    for k in range(origin, nsub + origin):
        res.count('mon.accessor_k')
        want = model[k - origin]
        try:
            got = langsem.eval_accessor(acc, I, V, k, len(atom))
        except (langsem.WrongDenotation, langsem.Malformed) as e:
            res.fail(f'accessor:{lang}:{type(e).__name__}', f'{lang} accessor for k={k}: {e}\n{code}', lang=lang, **case)
            return
        if got is None:                          # IDL "sa = []"
            if want.shape[0] != 0:
                res.fail(f'accessor:{lang}:empty-for-nonempty', f'{lang} accessor gives [] for non-empty subarray {k}', lang=lang, **case)
                return
            continue
        if isinstance(got, tuple) and got[0] == 'R-empty':
            if want.shape[0] != 0:
                res.fail(f'accessor:{lang}:empty-for-nonempty', f'{lang} accessor takes the empty branch for non-empty subarray {k}',
                         lang=lang, **case)
                return
            dims = got[1]
            if dims is not None and list(dims) != list(atom[::-1]) + [0]:
                res.fail(f'accessor:{lang}:empty-subarray-dimensions',
                         f'{lang} gives an empty subarray the dimensions {dims}; values in {lang} have dimensions '
                         f'{list(atom[::-1])} + [n], so an empty subarray is {list(atom[::-1]) + [0]}', lang=lang, **case)
                return
            continue
        expect = want if rowmajor else want.T
        g, e = got, expect
        if not rowmajor:
            g, e = np.squeeze(got), np.squeeze(expect)
        if want.shape[0] == 0:
            if got.size != 0:
                res.fail(f'accessor:{lang}:nonempty-for-empty', f'{lang} accessor for empty subarray {k} yields {got.size} values', lang=lang, **case)
                return
            continue
        if g.shape != e.shape or not bits_equal(np.ascontiguousarray(g), np.ascontiguousarray(e)):
            res.fail(f'accessor:{lang}:wrong-subarray',
                     f'{lang} accessor for k={k} yields dims {got.shape} {describe(np.ascontiguousarray(got))[:120]}; subarray is '
                     f'{describe(np.ascontiguousarray(expect))[:120]}\n{code}', lang=lang, **case)
            return
