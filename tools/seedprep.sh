#!/bin/bash
# usage: tools/seedprep.sh <ID> [emphasis text]  -- scratch worktree /tmp/seed/<ID> + prompt file for a fresh sub-agent
id=$1; emph=${2:-}
mkdir -p /tmp/seed
git -C /repo worktree remove --force /tmp/seed/$id 2>/dev/null
git -C /repo worktree add -q --detach /tmp/seed/$id HEAD || exit 1
python3 - "$id" "$emph" <<'PY'
import json,sys
id,emph=sys.argv[1],sys.argv[2]
tmpl=open('/verif/tools/seed_prompt.tmpl').read().replace('{{','{').replace('}}','}')
prop=None
for l in open('/verif/properties.jsonl'):
    p=json.loads(l)
    if p['id']==id:
        prop=f"{p['id']}: {p['title']}\n\n{p['statement']}\n\nQuantified over: {p['quantifier']['text']}"
t=tmpl.replace('{WT}',f'/tmp/seed/{id}').replace('{PROPERTY}',prop).replace('{ID}',id)
if emph:
    t=t.replace("The two changes should differ in mechanism and in the code site they touch.","The two changes should differ in mechanism and in the code site they touch. "+emph)
open(f'/tmp/seed/{id}.prompt.txt','w').write(t)
PY
echo prepared $id
