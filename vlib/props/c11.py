"""C11 — read-only access mode is enforced for every mutating operation."""
import numpy as np

from ..common import Result
from ..monitors import snapshot, snapdiff

PID = 'C11'
LEVEL = 'exploration'
RULE = ('complete matrix: mutating entry point {setitem, append, iterappend (non-empty and empty iterable), truncate, '
        'delete, metadata update / setitem / pop / popitem / del} x {Array, RaggedArray} x how mode r was obtained '
        '{default open, accessmode=r at creation (asarray, create_array, asraggedarray, create_raggedarray), assignment, '
        'r -> r+ -> r, after an explicit r+ context on the r handle, after successful use in r+, after the metadata object alone was switched to r+ and the handle re-assigned r} x state {first axis 0 (1-D, 2-D), non-empty, ragged with 0 subarrays, ragged with only empty '
        'subarrays, ragged non-empty} x {without metadata, with two keys, with exactly one key}: the call must raise and leave a byte-identical '
        'directory snapshot; after accessmode = r+ the same call must succeed where valid and show its effect. Every '
        'cell is non-trivial; distinct by cell')
EXHAUSTIVE = True
EXHAUSTIVE_PART = 'entry point x kind x origin of mode r x state x metadata matrix'
ASSUMPTIONS = ['an explicit open_array(accessmode="r+") context on an r handle is a documented override and not part of the matrix',
               'any exception class counts as "raises"']
ANCHORS = ['array:Array.check_arraywriteable', 'array:Array.iterappend', 'array:Array.__setitem__',
           'array:truncate_array', 'array:delete_array', 'raggedarray:RaggedArray.append',
           'raggedarray:RaggedArray.iterappend', 'raggedarray:truncate_raggedarray',
           'raggedarray:delete_raggedarray', 'metadata:MetaData.update', 'metadata:MetaData.pop',
           'metadata:MetaData.popitem']
REQUIRED = ['mon.readonly_calls', 'mon.tree_unchanged', 'mon.rplus_success']
MIN_NONTRIVIAL = {'quick': 400, 'thorough': 400}

ARRAY_OPS = ['setitem', 'append', 'iterappend', 'iterappend_empty', 'truncate', 'delete', 'md_update', 'md_setitem',
             'md_pop', 'md_popitem', 'md_del']
RAGGED_OPS = ['append', 'append_empty', 'iterappend', 'iterappend_empty', 'truncate', 'delete', 'md_update',
              'md_setitem', 'md_pop', 'md_popitem', 'md_del']
ORIGINS = ['default_open', 'at_creation', 'create_func', 'assigned', 'cycled', 'after_rplus_context',
           'after_rplus_use', 'metadata_mode_then_reassigned', 'assigned_inside_context', 'assigned_live_generator',
           'rplus_context_beside_live_generator', 'from_copy']
ARRAY_STATES = ['empty1d', 'empty2d', 'nonempty1d', 'nonempty2d']
RAGGED_STATES = ['nosub', 'onlyempty', 'nonempty', 'nonempty_atom2']


def cases(tier, seed):
    for md in (False, True, 'one'):
        for origin in ORIGINS:
            for st in ARRAY_STATES:
                for op in ARRAY_OPS:
                    yield {'kind': 'Array', 'state': st, 'origin': origin, 'op': op, 'md': md}
            for st in RAGGED_STATES:
                for op in RAGGED_OPS:
                    yield {'kind': 'RaggedArray', 'state': st, 'origin': origin, 'op': op, 'md': md}


def build(env, d, case):
    """Return a handle in mode 'r' obtained the requested way."""
    D = env.darr
    p = d / 'x'
    md = ({'a': 1} if case['md'] == 'one' else {'a': 1, 'b': [2]}) if case['md'] else None
    origin, st = case['origin'], case['state']
    cmode = 'r' if origin in ('at_creation', 'create_func') else 'r+'
    # the numeric type / byte order rotates with the cell (an empty array is represented by an in-memory stand-in
    # whose type handling differs from that of a memory map)
    import zlib
    adt = ['int32', '>i4', '>f8', '<c8', 'uint8', '>f2'][zlib.crc32(repr(sorted(case.items(), key=str)).encode()) % 6]
    if case['kind'] == 'Array':
        shape = {'empty1d': (0,), 'empty2d': (0, 2), 'nonempty1d': (4,), 'nonempty2d': (3, 2)}[st]
        data = (np.arange(int(np.prod(shape)), dtype='int32') + 1).reshape(shape).astype(adt)
        if origin == 'create_func':
            h = D.create_array(p, shape=shape, dtype=adt, fill=1, accessmode=cmode, metadata=md, chunklen=2)
        else:
            h = D.asarray(p, data, accessmode=cmode, metadata=md, chunklen=2)
        opener = D.Array
    else:
        if st == 'nosub':
            if origin == 'create_func':
                h = D.create_raggedarray(p, atom=(), dtype='int32', accessmode=cmode, metadata=md)
            else:
                h = D.asraggedarray(p, [[1, 2]], dtype='int32', accessmode='r+', metadata=md)
                D.truncate_raggedarray(h, 0)
                h = D.RaggedArray(p, accessmode=cmode)
        else:
            items = {'onlyempty': [[], []], 'nonempty': [[1, 2], [], [3]],
                     'nonempty_atom2': [[[1, 2]], [[3, 4], [5, 6]]]}[st]
            h = D.asraggedarray(p, [np.asarray(i, dtype='int32').reshape((-1, 2) if st.endswith('atom2') else (-1,))
                                    for i in items], dtype='int32', accessmode=cmode, metadata=md)
        opener = D.RaggedArray
    if origin == 'default_open':
        h = opener(p)
    elif origin == 'assigned':
        h.accessmode = 'r'
    elif origin == 'cycled':
        h.accessmode = 'r'
        h.accessmode = 'r+'
        h.accessmode = 'r'
    elif origin == 'after_rplus_context':
        # an explicit r+ context on an r handle is a documented override; once it is left,
        # the handle must be read-only again
        h = opener(p)
        if case['kind'] == 'Array':
            with h.open_array(accessmode='r+'):
                if len(h):
                    h[0] = h[0]
                else:
                    h[:] = 0
        else:
            with h.open_arrays(accessmode='r+'):
                pass
    elif origin == 'metadata_mode_then_reassigned':
        # the metadata object's own (public) accessmode was set to r+ while the handle is in r;
        # assigning accessmode = 'r' to the handle afterwards must lock everything again
        h = opener(p)
        h.metadata.accessmode = 'r+'
        h.accessmode = 'r'
    elif origin == 'assigned_inside_context':
        # the handle's own (default-mode) context is still open when the mode is assigned; the
        # read-only call below runs inside it.  run_case closes it before the r+ phase.
        import contextlib
        h._verif_keep = contextlib.ExitStack()
        h._verif_keep.enter_context(h.open_array() if case['kind'] == 'Array' else h.open_arrays())
        h.accessmode = 'r'
    elif origin == 'assigned_live_generator':
        # a suspended chunk / subarray iterator keeps the array open while the mode is assigned
        import contextlib
        h._verif_keep = contextlib.ExitStack()
        if case['kind'] == 'Array':
            g = h.iterchunks(1)
        else:
            g = h.iter_arrays() if hasattr(h, 'iter_arrays') else iter(h)
        try:
            next(g, None)
        except ValueError:      # an empty Array cannot be iterated at all: nothing stays open
            pass
        h._verif_keep.callback(g.close)
        h.accessmode = 'r'
    elif origin == 'rplus_context_beside_live_generator':
        # an r handle with a suspended (read-only) iterator; an explicit r+ context is entered and left beside it:
        # afterwards the handle is as read-only as before, also while the iterator is still alive
        import contextlib
        h = opener(p)
        h._verif_keep = contextlib.ExitStack()
        g = h.iterchunks(1) if case['kind'] == 'Array' else h.iter_arrays()
        try:
            next(g, None)
        except ValueError:
            pass
        h._verif_keep.callback(g.close)
        with (h.open_array(accessmode='r+') if case['kind'] == 'Array' else h.open_arrays(accessmode='r+')):
            pass
    elif origin == 'from_copy':
        # the handle returned by copy() with its documented default access mode (r), also for empty sources
        h = h.copy(d / 'thecopy')
        p = d / 'thecopy'
    elif origin == 'after_rplus_use':
        # successful writes in r+, then the mode is assigned back to r
        if case['kind'] == 'Array':
            h[:] = h[:]
            h.append(h[:0])
        else:
            h.iterappend([])
        h.metadata.update({})
        h.accessmode = 'r'
    return h, p, opener


def call(env, h, case):
    """Perform the mutating call; returns a description of validity in r+."""
    D = env.darr
    op = case['op']
    ragged = case['kind'] == 'RaggedArray'
    if op == 'setitem':
        if len(h) == 0:
            h[:] = 7
        else:
            h[0] = 7
    elif op == 'append':
        if ragged:
            h.append(np.ones((2,) + tuple(h.atom), dtype='int32'))
        else:
            h.append(np.ones((1,) + tuple(h.shape[1:]), dtype=h.dtype))
    elif op == 'append_empty':
        h.append(np.ones((0,) + tuple(h.atom), dtype='int32'))
    elif op == 'iterappend':
        if ragged:
            h.iterappend([np.ones((1,) + tuple(h.atom), dtype='int32'), np.ones((0,) + tuple(h.atom), dtype='int32')])
        else:
            h.iterappend([np.ones((1,) + tuple(h.shape[1:]), dtype=h.dtype)] * 2)
    elif op == 'iterappend_empty':
        h.iterappend([])
    elif op == 'truncate':
        (D.truncate_raggedarray if ragged else D.truncate_array)(h, 0)
    elif op == 'delete':
        (D.delete_raggedarray if ragged else D.delete_array)(h)
    elif op == 'md_update':
        h.metadata.update({'new': 1})
    elif op == 'md_setitem':
        h.metadata['new'] = [1, 2]
    elif op == 'md_pop':
        h.metadata.pop('a')
    elif op == 'md_popitem':
        h.metadata.popitem()
    elif op == 'md_del':
        del h.metadata['a']


def valid_in_rplus(case, n):
    op = case['op']
    if op == 'truncate':
        return n > 0
    if op in ('md_pop', 'md_popitem', 'md_del'):
        return case['md']
    return True


def run_case(case, env):
    res = Result()
    d = env.scratch.new('r')
    try:
        h, p, opener = build(env, d, case)
        n = len(h)
        res.dim('op', f"{case['kind']}.{case['op']}")
        res.dim('origin', case['origin'])
        res.dim('state', case['state'])
        if h.accessmode != 'r':
            res.fail('setup:mode-not-r', f'handle obtained via {case["origin"]} reports accessmode {h.accessmode!r}')
            return res
        before = snapshot(p)
        raised = None
        try:
            call(env, h, case)
        except Exception as e:
            raised = e
        after = snapshot(p)
        res.count('mon.readonly_calls')
        res.count('mon.tree_unchanged')
        cell = f"{case['kind']}.{case['op']} on {case['state']} (mode r via {case['origin']}, metadata={case['md']})"
        emptiness = 'empty' if n == 0 else 'nonempty'
        if after != before:
            res.fail(f"readonly-modified:{case['kind']}.{case['op']}:{emptiness}",
                     f'{cell}: files changed: {snapdiff(before, after)} (raised: {type(raised).__name__ if raised else None})',
                     **case)
        elif raised is None:
            res.fail(f"readonly-no-raise:{case['kind']}.{case['op']}:{emptiness}", f'{cell}: returned normally', **case)
        if not res.fails:
            # ---- after switching to r+ the same operation succeeds where valid
            if hasattr(h, '_verif_keep'):
                h._verif_keep.close()
            h.accessmode = 'r+'
            if valid_in_rplus(case, n):
                res.count('mon.rplus_success')
                try:
                    call(env, h, case)
                except Exception as e:
                    res.fail(f"rplus-failed:{case['kind']}.{case['op']}:{type(e).__name__}",
                             f'{cell}: after accessmode=r+ the call raised {type(e).__name__}: {str(e)[:200]}', **case)
                else:
                    effect(env, res, case, p, opener, n, cell, before)
        res.nontrivial = True
        res.sig = repr(sorted(case.items()))
        return res
    finally:
        env.scratch.drop(d)


def effect(env, res, case, p, opener, n, cell, before):
    op = case['op']
    if op == 'delete':
        if p.exists():
            res.fail(f"rplus-no-effect:{case['kind']}.delete", f'{cell}: path still exists after delete in r+', **case)
        return
    f = opener(p)
    ok = True
    if op == 'append':
        ok = len(f) == n + 1
    elif op == 'append_empty':
        ok = len(f) == n + 1 and len(f[n]) == 0
    elif op == 'iterappend':
        ok = len(f) == n + 2
    elif op == 'iterappend_empty':
        ok = len(f) == n
    elif op == 'truncate':
        ok = len(f) == 0
    elif op == 'setitem':
        ok = n == 0 or int(np.asarray(f[0]).flat[0]) == 7
    elif op in ('md_update', 'md_setitem'):
        ok = 'new' in f.metadata
    elif op in ('md_pop', 'md_del'):
        ok = 'a' not in f.metadata
    elif op == 'md_popitem':
        ok = len(f.metadata) == (0 if case['md'] == 'one' else 1)
    if not ok:
        res.fail(f"rplus-no-effect:{case['kind']}.{op}", f'{cell}: call in r+ succeeded but its effect is not visible', **case)
