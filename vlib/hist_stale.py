"""Histories in which the handle under test goes *stale*.

The array is changed behind a long-lived handle `h` by other means - by path
(`truncate_array(path, k)`), through a second handle object (append, element
assignment, metadata) or by re-creation with `overwrite=True` (same byte size
but another type / shape, or something else entirely) - and `h` is used again
afterwards (read, assign, append, iterappend, truncate).  Every step is a
completed operation of a history in the sense of C02/C03/C05/C12, so after
each of them

  * the independent decoder must reconstruct the model from the files,
  * a fresh handle must report the model,
  * what is read *through h* must be what the array holds now,
  * after a length-changing operation through h, h itself reports the model.

What h reports (len, shape, dtype) between an external change and its own next
length-changing operation is deliberately not judged: Darr caches these in the
handle object.
"""
import random

import numpy as np

from . import gens
from .hist_ragged import check_ifd, check_model
from .monitors import bits_equal, check_array_disk, check_array_readme, compare_handle, describe, fdmap

XOPS = ['x:trunc', 'x:app', 'x:set', 'x:recreate_samesize', 'x:recreate_other', 'x:md', 'x:md_clear']
HOPS = ['h:read', 'h:set', 'h:app', 'h:iterapp', 'h:trunc', 'h:md']
HOLD_ENABLED = True
HOLD_STEPS = ['x:app', 'x:trunc', 'x:md', 'h:app', 'h:iterapp', 'h:app', 'h:trunc']
SHAPES = [(0,), (1,), (3,), (6,), (10,), (0, 2), (2, 3), (3, 2), (4, 1), (2, 2, 2), (3, 1, 2)]
# same item size, another interpretation of the same bytes
SAMESIZE = {1: ['int8', 'uint8'], 2: ['int16', 'uint16', 'float16'], 4: ['int32', 'uint32', 'float32'],
            8: ['int64', 'uint64', 'float64', 'complex64'], 16: ['complex128']}


def steps_for(rng, read_bias=False, hops=None):
    n = rng.randint(2, 7)
    out = []
    hops = hops or HOPS + (['h:read', 'h:set', 'h:read'] if read_bias else [])
    for i in range(n):
        if i == 0 or (out[-1].startswith('h:') and rng.random() < 0.5):
            out.append(rng.choice(XOPS))
        else:
            out.append(rng.choice(hops))
    if not any(s.startswith('h:') for s in out):
        out.append(rng.choice(hops))
    return out


def array_cases(rng, n, seed, read_bias=False, hops=None):
    for k in range(n):
        yield {'kind': 'stale', 'numtype': rng.choice(gens.T13), 'bo': rng.choice(gens.BO),
               'shape': list(rng.choice(SHAPES)), 'steps': steps_for(rng, read_bias, hops), 'vseed': f'{seed}:st{k}',
               'chunklen': rng.choice([1, 2, 100])}
        if k % 4 == 3 and hops is None and HOLD_ENABLED:
            # the long-lived handle keeps its OWN context open during the whole history; only length changes are
            # made (by other means and through it) and only files and fresh handles are judged - what the open map of
            # the old handle shows in between is not (see DESIGN section 8)
            c = {'kind': 'stale', 'numtype': rng.choice(gens.T13), 'bo': rng.choice(gens.BO), 'shape': list(rng.choice(SHAPES)),
                 'steps': [rng.choice(HOLD_STEPS) for _ in range(rng.randint(2, 6))], 'vseed': f'{seed}:hold{k}',
                 'chunklen': rng.choice([1, 2, 100]), 'hold': True}
            yield c


def ragged_cases(rng, n, seed, hops=None):
    for k in range(n):
        yield {'kind': 'stale', 'numtype': rng.choice(gens.T13), 'bo': rng.choice(gens.BO),
               'atom': list(rng.choice([(), (), (2,), (1, 2)])), 'nsub': rng.choice([0, 1, 2, 3, 6, 7]),
               'steps': [s for s in steps_for(rng, hops=hops) if s not in ('x:set', 'h:set', 'x:md_clear', 'h:md')]
               or ['x:app', 'h:app'],
               'vseed': f'{seed}:sr{k}'}
        if k % 4 == 3 and hops is None and HOLD_R_ENABLED:
            yield {'kind': 'stale', 'numtype': rng.choice(gens.T13), 'bo': rng.choice(gens.BO),
                   'atom': list(rng.choice([(), (2,)])), 'nsub': rng.choice([0, 1, 3, 6]),
                   'steps': [rng.choice(HOLD_STEPS) for _ in range(rng.randint(2, 6))], 'vseed': f'{seed}:rhold{k}', 'hold': True}


HOLD_R_ENABLED = True


def sig_of(case):
    return repr((case.get('numtype'), case.get('bo'), tuple(case.get('shape', case.get('atom', ()))), case.get('nsub'),
                 tuple(case['steps'])))


def _rows(rng, dtype, trailing, lo=1, hi=3):
    return gens.random_values(rng, dtype, (rng.randint(lo, hi),) + tuple(trailing))


def run_array(env, res, case, want_readme=False, census=False):
    D = env.darr
    rng = random.Random(f"stale:{case['vseed']}")
    dtype = gens.dt(case['numtype'], case['bo'])
    model = gens.random_values(rng, dtype, tuple(case['shape']))
    d = env.scratch.new('s')
    try:
        path = d / 'a.darr'
        h = D.asarray(path, model, accessmode='r+', chunklen=case['chunklen'])
        mdmodel = {}
        lastx = 'none'
        nsteps = 0
        import contextlib
        held = contextlib.ExitStack()
        if case.get('hold'):
            held.enter_context(h.open_array())
            res.count('mon.histories_with_held_context')
        for step in case['steps']:
            tag = f'stale{"(held)" if case.get("hold") else ""}:{lastx}>{step}'
            n = model.shape[0]
            try:
                if step == 'x:trunc':
                    if n == 0:
                        continue
                    k = rng.randrange(n)
                    D.truncate_array(path, k)
                    model = model[:k].copy()
                elif step == 'x:trunc2':        # by path, takes away exactly what 'h:app2' added
                    if n < 2:
                        continue
                    D.truncate_array(path, n - 2)
                    model = model[:n - 2].copy()
                elif step == 'h:app2':
                    rows = _rows(rng, model.dtype, model.shape[1:], 2, 2)
                    h.append(rows)
                    model = np.concatenate([model, rows]).astype(model.dtype)
                elif step == 'x:app':
                    rows = _rows(rng, model.dtype, model.shape[1:])
                    D.Array(path, accessmode='r+').append(rows)
                    model = np.concatenate([model, rows]).astype(model.dtype)
                elif step == 'x:set':
                    if n == 0:
                        continue
                    i = rng.randrange(n)
                    row = gens.random_values(rng, model.dtype, model.shape[1:])
                    D.Array(path, accessmode='r+')[i] = row
                    model[i] = row
                elif step == 'x:md':
                    v_ = rng.randint(0, 9)
                    D.Array(path, accessmode='r+').metadata['kx'] = v_
                    mdmodel['kx'] = v_
                elif step == 'x:md_clear':
                    md2 = D.Array(path, accessmode='r+').metadata
                    for key in list(md2.keys()):
                        md2.pop(key)
                    mdmodel.clear()
                elif step == 'h:md':
                    v_ = rng.randint(0, 3)
                    h.metadata['kh'] = v_
                    mdmodel['kh'] = v_
                elif step == 'h:md_pop':
                    if 'kx' in mdmodel:
                        h.metadata.pop('kx')
                        del mdmodel['kx']
                    else:
                        h.metadata.update({'kh2': [1, 2]})
                        mdmodel['kh2'] = [1, 2]
                elif step == 'x:recreate_samesize':
                    cands = [t for t in SAMESIZE[model.dtype.itemsize] if np.dtype(t).kind != model.dtype.kind
                             or np.dtype(t).itemsize != model.dtype.itemsize] or SAMESIZE[model.dtype.itemsize]
                    nt = rng.choice(cands)
                    newdt = gens.dt(nt, rng.choice(gens.BO))
                    nitems = model.size * model.dtype.itemsize // newdt.itemsize
                    shape = (nitems,) if model.ndim == 1 or rng.random() < 0.3 else \
                        tuple(reversed(model.shape)) if model.shape[-1] != 0 and 0 not in model.shape[::-1][1:] else model.shape
                    if int(np.prod(shape)) != nitems or (len(shape) > 1 and 0 in shape[1:]):
                        shape = (nitems,)
                    model = gens.random_values(rng, newdt, shape)
                    D.asarray(path, model, overwrite=True, accessmode='r+')
                    mdmodel.clear()
                elif step == 'x:recreate_other':
                    newdt = gens.dt(rng.choice(gens.T13), rng.choice(gens.BO))
                    model = gens.random_values(rng, newdt, rng.choice(SHAPES))
                    D.asarray(path, model, overwrite=True, accessmode='r+', chunklen=rng.choice([1, 3, 100]))
                    mdmodel.clear()
                elif step == 'h:read':
                    res.count('mon.stale_reads')
                    for idx in (slice(None), Ellipsis, slice(1, None, 2), slice(None, None, -1), [0] if n else slice(0, 0)):
                        got = h[idx]
                        ref = np.array(model[idx], copy=True)
                        if not bits_equal(np.asarray(got), ref):
                            res.fail(f'{tag}:read-differs', f'h[{idx!r}] through the stale handle = {describe(np.asarray(got))}, '
                                                            f'the array holds {describe(ref)}', step=step)
                            return
                elif step == 'h:ctxfail':
                    # refused calls inside the handle's own open context (nested users that end by an exception)
                    res.count('mon.refused_calls_inside_context')
                    with h.open_array():
                        for bad in (lambda: list(h.iterchunks(0)), lambda: h[10 ** 9], lambda: h.__setitem__(10 ** 9, 1)):
                            try:
                                bad()
                            except Exception:
                                pass
                elif step == 'h:copy':
                    res.count('mon.stale_copies')
                    cpath = d / f'copy{nsteps}'
                    c = h.copy(cpath, chunklen=rng.choice([None, 1, 3]))
                    if not check_array_disk(res, D, cpath, c, model, want=('ifd', 'live', 'fresh'), mechprefix=f'{tag}:copy'):
                        return
                elif step == 'h:chunks':
                    if n == 0:
                        continue
                    res.count('mon.stale_chunk_iterations')
                    cl = rng.choice([1, 2, 3, n, n + 2])
                    chunks = list(h.iterchunks(cl))
                    got = np.concatenate(chunks).astype(chunks[0].dtype) if chunks else None
                    if got is None or not bits_equal(np.ascontiguousarray(got), model) or \
                            any(len(c_) != cl for c_ in chunks[:-1]):
                        res.fail(f'{tag}:chunks-differ', f'iterchunks({cl}) through the stale handle yields chunks of lengths '
                                                         f'{[len(c_) for c_ in chunks][:12]} = {describe(got) if got is not None else None}; '
                                                         f'the array holds {describe(model)}', step=step)
                        return
                elif step == 'h:set':
                    if n == 0:
                        continue
                    i = rng.randrange(n)
                    row = gens.random_values(rng, model.dtype, model.shape[1:])
                    h[i] = row
                    model[i] = row
                elif step == 'h:app':
                    rows = _rows(rng, model.dtype, model.shape[1:])
                    h.append(rows)
                    model = np.concatenate([model, rows]).astype(model.dtype)
                elif step == 'h:iterapp':
                    chunks = [_rows(rng, model.dtype, model.shape[1:]) for _ in range(2)]
                    h.iterappend(c for c in chunks)
                    model = np.concatenate([model] + chunks).astype(model.dtype)
                elif step == 'h:trunc':
                    if n == 0:
                        continue
                    k = rng.randrange(n)
                    D.truncate_array(h, k)
                    model = model[:k].copy()
            except Exception as e:
                res.fail(f'{tag}:raised:{type(e).__name__}', f'{step} raised {type(e).__name__}: {str(e)[:200]}', step=step)
                return
            nsteps += 1
            res.count('mon.stale_steps')
            if step.startswith('x:'):
                lastx = step
            live = h if step in ('h:app', 'h:app2', 'h:iterapp', 'h:trunc') else None
            if case.get('hold'):
                live = None         # what the holding handle's open map shows after external changes is not judged
            if not check_array_disk(res, D, path, None, model, want=('ifd', 'fresh'), mechprefix=tag):
                return
            if live is not None:
                res.count('mon.stale_live_after_resize')
                if not compare_handle(res, 'live', live, model, tag):
                    return
            # metadata changed through either handle: a fresh handle and the file show the union of what both did
            if step in ('x:md', 'x:md_clear', 'h:md', 'h:md_pop', 'x:recreate_samesize', 'x:recreate_other'):
                res.count('mon.stale_metadata')
                try:
                    gotmd = dict(D.Array(path).metadata)
                except Exception as e:
                    gotmd = f'{type(e).__name__}: {e}'
                if gotmd != mdmodel or (path / 'metadata.json').exists() != bool(mdmodel):
                    res.fail(f'{tag}:metadata-differs', f'after {step}: a fresh handle reads metadata {gotmd!r}, expected {mdmodel!r} '
                                                        f'(metadata.json exists: {(path / "metadata.json").exists()})', step=step)
                    return
            if census:
                res.count('mon.fdmap')
                leak = fdmap(path)
                if leak:
                    res.fail(f'{tag}:fd-or-map-left-open', f'after {step}: {leak}', step=step)
                    return
            if want_readme:
                check_array_readme(res, D, path, mechprefix=f'{tag}:readme')
                if res.fails:
                    return
        held.close()
        res.nontrivial = nsteps >= 2
    finally:
        env.scratch.drop(d)


def run_ragged(env, res, case):
    D = env.darr
    rng = random.Random(f"staler:{case['vseed']}")
    dtype = gens.dt(case['numtype'], case['bo'])
    atom = tuple(case['atom'])

    def sub(lo=0, hi=3, dt=None, at=None):
        return gens.random_values(rng, dt or dtype, (rng.randint(lo, hi),) + tuple(atom if at is None else at))

    model = [sub() for _ in range(case['nsub'])]
    d = env.scratch.new('s')
    try:
        path = d / 'r.darr'
        if model:
            h = D.asraggedarray(path, model, dtype=dtype, accessmode='r+')
        else:
            h = D.create_raggedarray(path, atom=atom, dtype=dtype, accessmode='r+')
        lastx = 'none'
        nsteps = 0
        import contextlib
        held = contextlib.ExitStack()
        if case.get('hold'):
            held.enter_context(h.open_arrays())
            res.count('mon.histories_with_held_context')
        for step in case['steps']:
            tag = f'stale{"(held)" if case.get("hold") else ""}:{lastx}>{step}'
            n = len(model)
            try:
                if step == 'x:trunc':
                    if n == 0:
                        continue
                    k = rng.randrange(n)
                    D.truncate_raggedarray(path, k)
                    model = model[:k]
                elif step == 'x:app':
                    s = sub()
                    D.RaggedArray(path, accessmode='r+').append(s)
                    model = model + [s]
                elif step == 'x:md':
                    D.RaggedArray(path, accessmode='r+').metadata['k'] = rng.randint(0, 9)
                elif step == 'x:recreate_samesize':
                    # same byte size of the values (and indices) file, other interpretation of the bytes
                    cands = [t for t in SAMESIZE[dtype.itemsize] if np.dtype(t).kind != dtype.kind] or SAMESIZE[dtype.itemsize]
                    dtype = gens.dt(rng.choice(cands), rng.choice(gens.BO))
                    model = [gens.random_values(rng, dtype, m.shape) for m in model]
                    if model:
                        D.asraggedarray(path, model, dtype=dtype, overwrite=True, accessmode='r+')
                    else:
                        D.create_raggedarray(path, atom=atom, dtype=dtype, overwrite=True, accessmode='r+')
                elif step == 'x:recreate_other':
                    dtype = gens.dt(rng.choice(gens.T13), rng.choice(gens.BO))
                    atom = tuple(rng.choice([(), (2,), (3,), (1, 2)]))
                    model = [sub() for _ in range(rng.choice([1, 2, 4]))]
                    D.asraggedarray(path, model, dtype=dtype, overwrite=True, accessmode='r+')
                elif step == 'h:read':
                    res.count('mon.stale_reads')
                    for i in range(n):
                        got = np.asarray(h[i])
                        if not bits_equal(got, model[i]):
                            res.fail(f'{tag}:read-differs', f'h[{i}] through the stale handle = {describe(got)}, '
                                                            f'the array holds {describe(model[i])}', step=step)
                            return
                elif step == 'h:copy':
                    res.count('mon.stale_copies')
                    c = h.copy(d / f'copy{nsteps}')
                    if not check_model(res, 'copy', c, model, dtype, atom) or \
                            not check_model(res, 'copy-fresh', D.RaggedArray(d / f'copy{nsteps}'), model, dtype, atom):
                        for f in res.fails:
                            f['mech'] = f'{tag}:' + f['mech']
                        return
                elif step == 'h:iter':
                    res.count('mon.stale_iterations')
                    got = list(h.iter_arrays())
                    if len(got) != n or any(not bits_equal(np.asarray(g), m) for g, m in zip(got, model)):
                        res.fail(f'{tag}:iter_arrays-differs', f'iter_arrays() through the stale handle yields {len(got)} '
                                                               f'subarrays, the array holds {n}', step=step)
                        return
                elif step == 'h:app':
                    s = sub()
                    h.append(s)
                    model = model + [s]
                elif step == 'h:iterapp':
                    ss = [sub() for _ in range(rng.randint(1, 3))]
                    h.iterappend(x for x in ss)
                    model = model + ss
                elif step == 'h:trunc':
                    if n == 0:
                        continue
                    k = rng.randrange(n)
                    D.truncate_raggedarray(h, k)
                    model = model[:k]
            except Exception as e:
                res.fail(f'{tag}:raised:{type(e).__name__}', f'{step} raised {type(e).__name__}: {str(e)[:200]}', step=step)
                return
            nsteps += 1
            res.count('mon.stale_steps')
            if step.startswith('x:'):
                lastx = step
            got = check_ifd(res, D, path)
            if got is None:
                for f in res.fails:
                    f['mech'] = f'{tag}:' + f['mech']
                return
            subs, info = got
            if len(subs) != len(model) or any(not bits_equal(np.ascontiguousarray(a), b) for a, b in zip(subs, model)):
                res.fail(f'{tag}:ifd-vs-model', f'files decode to {[describe(s) for s in subs][:4]}, '
                                                f'model {[describe(m) for m in model][:4]}', step=step)
                return
            try:
                fresh = D.RaggedArray(path)
            except Exception as e:
                res.fail(f'{tag}:fresh-open-failed', f'{type(e).__name__}: {e}')
                return
            # (in held-context histories only files and fresh handles are judged, not the holding handle's open maps)
            if not check_model(res, 'fresh', fresh, model, dtype, atom) or \
                    (step in ('h:app', 'h:iterapp', 'h:trunc') and not case.get('hold')
                     and not check_model(res, 'live', h, model, dtype, atom)):
                for f in res.fails:
                    f['mech'] = f'{tag}:' + f['mech']
                return
        held.close()
        res.nontrivial = nsteps >= 2
    finally:
        env.scratch.drop(d)
