#!/bin/bash
# usage: tools/seedwave.sh <wave-number> <ID> <checks...>   files /tmp/seed/<ID>/seed_out/{patch,demo,meta}{1,2} as seeds <ID>-(2w-1), <ID>-(2w)
w=$1; id=$2; shift 2
out=/tmp/seedout$w/$id
mkdir -p $out && cp /tmp/seed/$id/seed_out/* $out/ && git -C /repo worktree remove --force /tmp/seed/$id
cd /verif
SEED_SRC=$out SEED_K_OUT=$((2*w-1)) python3 tools/seedkeep.py $id 1 "$@" 2>&1 | grep -E "check|kept|NOT|APPLY"
SEED_SRC=$out SEED_K_OUT=$((2*w)) python3 tools/seedkeep.py $id 2 "$@" 2>&1 | grep -E "check|kept|NOT|APPLY"
