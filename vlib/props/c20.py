"""C20 — DataDir never modifies protected files and round-trips user files."""
import json
import os
import random
from pathlib import Path

import numpy as np

from ..common import Result
from ..monitors import snapshot, snapdiff

PID = 'C20'
LEVEL = 'exploration'
RULE = ('complete matrix {write_txt, write_jsonfile, write_jsondict, update_jsondict, delete_files, open_file x 7 '
        'writing modes} x every protected name of an Array and of a RaggedArray (incl. values/ and indices/ and the '
        'files beneath them, and metadata.json present or absent) x spelling {as stored, Path, ./x, .//x, x/, sub/../x, '
        'doubled separator, values/../values/x} x overwrite flag x preceding read-only open of the same name: the call must raise OSError and the directory snapshot '
        'must be byte-identical; plus generated user-file round trips (JSON dicts, unicode text), overwrite gate and '
        'delete_files set semantics. All matrix cells are non-trivial; distinct by cell or by generated content')
EXHAUSTIVE = True
EXHAUSTIVE_PART = 'method x protected name x spelling x mode x overwrite matrix'
ASSUMPTIONS = ['absolute-path spellings and symlink aliases are recorded but not judged (not among the listed spellings)',
               'open_file mode "rb" is recorded but not judged (the quantifier lists the 7 writing modes)']
ANCHORS = ['datadir:DataDir._check_writeprotected', 'datadir:DataDir.write_txt', 'datadir:DataDir.write_jsonfile',
           'datadir:DataDir.write_jsondict', 'datadir:DataDir.update_jsondict', 'datadir:DataDir.delete_files',
           'datadir:DataDir.open_file']
REQUIRED = ['mon.protected_calls', 'mon.tree_unchanged', 'mon.user_roundtrip', 'mon.overwrite_gate',
            'mon.delete_exact']
MIN_NONTRIVIAL = {'quick': 1500, 'thorough': 3000}

MODES = ['w', 'a', 'x', 'r+', 'rb+', 'wb', 'ab']
METHODS = ['write_txt', 'write_jsonfile', 'write_jsondict', 'update_jsondict', 'delete_files', 'delete_files_mixed'] + \
          [f'open_file:{m}' for m in MODES]
ARRAY_NAMES = ['README.txt', 'arraydescription.json', 'arrayvalues.bin', 'metadata.json']
RAGGED_NAMES = ['README.txt', 'arraydescription.json', 'metadata.json', 'values', 'indices',
                'values/arrayvalues.bin', 'values/arraydescription.json', 'values/README.txt',
                'indices/arrayvalues.bin', 'indices/arraydescription.json', 'values/newfile.txt',
                'indices/newfile.json']
SPELLINGS = ['plain', 'Path', 'dot', 'dotdouble', 'trailing', 'detour', 'doublesep', 'updown', 'PathDot',
             'parentdetour', 'PathParentDetour']


def spell(name, how):
    if how == 'plain':
        return name
    if how == 'Path':
        return Path(name)
    if how == 'dot':
        return './' + name
    if how == 'PathDot':
        return Path('.') / name
    if how == 'dotdouble':
        return './/' + name
    if how == 'trailing':
        return name + '/'
    if how == 'detour':
        return 'sub/../' + name
    if how == 'doublesep':
        return name.replace('/', '//') if '/' in name else './/./' + name
    if how == 'updown':
        first = name.split('/')[0]
        return f'{first}/../{name}' if '/' in name or first in ('values', 'indices') else f'sub/./../{name}'
    if how == 'parentdetour':          # out of the array directory and back in by its own name
        return '../arr/' + name
    if how == 'PathParentDetour':
        return Path('..') / 'arr' / name
    raise ValueError(how)


def cases(tier, seed):
    for kind, names in (('Array', ARRAY_NAMES), ('RaggedArray', RAGGED_NAMES)):
        for with_md in (True, False):
            for name in names:
                for sp in SPELLINGS:
                    if sp == 'trailing' and '.' in name.split('/')[-1] and tier == 'quick' and not with_md:
                        continue
                    for meth in METHODS:
                        for ow in (False, True):
                            if meth.startswith(('open_file', 'delete', 'update')) and ow:
                                continue
                            for prelude in ('none', 'read-open'):
                                if prelude == 'read-open' and (ow or not with_md):
                                    continue
                                yield {'t': 'protected', 'kind': kind, 'md': with_md, 'name': name, 'spelling': sp,
                                       'method': meth, 'overwrite': ow, 'prelude': prelude}
    # the handle itself was opened through a path that contains a symbolic link (to the parent, or to the array directory)
    for kind, names in (('Array', ARRAY_NAMES), ('RaggedArray', RAGGED_NAMES)):
        for via in ('symlinked_parent', 'symlink_to_array', 'symlink_dotdot', 'constituent_symlink'):
            for name in names:
                for sp in ('plain', 'Path', 'dot', 'detour', 'parentdetour'):
                    for meth in METHODS:
                        yield {'t': 'protected', 'kind': kind, 'md': True, 'name': name, 'spelling': sp,
                               'method': meth, 'overwrite': meth.startswith('write'), 'prelude': 'none', 'via': via}
    # user-made symbolic links INSIDE the array directory that lead to protected names (existing ones, and - dangling -
    # ones that do not exist yet): writing through the alias is writing to the protected name
    for kind, aliases in (('Array', [('alias.bin', 'arrayvalues.bin', ''), ('info.json', 'metadata.json', ''),
                                     ('adescr', 'arraydescription.json', '')]),
                          ('RaggedArray', [('extra', 'values', 'newfile.txt'), ('extra', 'values', 'arrayvalues.bin'),
                                           ('idx', 'indices', 'arraydescription.json'), ('info.json', 'metadata.json', '')])):
        for alias, target, below in aliases:
            for meth in METHODS:
                for md in (False, True):
                    yield {'t': 'protected', 'kind': kind, 'md': md, 'name': (alias + '/' + below) if below else alias,
                           'spelling': 'plain', 'method': meth, 'overwrite': meth.startswith('write'), 'prelude': 'none',
                           'alias': [alias, target]}
    n = 300 if tier == 'quick' else 3000
    for k in range(n):
        yield {'t': 'user', 'kind': 'Array' if k % 2 else 'RaggedArray', 'k': k}


def make(env, d, kind, with_md, via=None):
    D = env.darr
    p = d / 'arr'
    if via:
        (d / 'real').mkdir()
        a, p = make(env, d / 'real', kind, with_md)
        opener = D.Array if kind == 'Array' else D.RaggedArray
        if via == 'symlinked_parent':
            os.symlink(d / 'real', d / 'lnk')
            return opener(d / 'lnk' / 'arr', accessmode='r+'), p
        if via == 'symlink_to_array':
            os.symlink(p, d / 'arrlink')
            return opener(d / 'arrlink', accessmode='r+'), p
        if via == 'constituent_symlink':
            # a constituent of the array lives elsewhere (another volume) and is linked in
            import shutil
            (d / 'vol2').mkdir()
            name = 'arrayvalues.bin' if kind == 'Array' else 'values'
            shutil.move(p / name, d / 'vol2' / name)
            os.symlink(d / 'vol2' / name, p / name)
            return opener(p, accessmode='r+'), p
        (d / 'real' / 'projA').mkdir()
        os.symlink(d / 'real' / 'projA', d / 'current')
        return opener(d / 'current' / '..' / 'arr', accessmode='r+'), p
    md = {'k': [1, 2]} if with_md else None
    if kind == 'Array':
        a = D.asarray(p, np.arange(6, dtype='int16').reshape(3, 2), metadata=md, accessmode='r+')
    else:
        a = D.asraggedarray(p, [[1, 2], [3]], metadata=md, accessmode='r+')
    (p / 'sub').mkdir()
    (p / 'sub' / 'note.txt').write_text('user data')
    (p / 'userfile.txt').write_text('more user data')
    return a, p


def invoke(dd, meth, fn, ow):
    if meth == 'write_txt':
        dd.write_txt(fn, 'OVERWRITTEN', overwrite=ow)
    elif meth == 'write_jsonfile':
        dd.write_jsonfile(fn, [1, 2, 3], overwrite=ow)
    elif meth == 'write_jsondict':
        dd.write_jsondict(fn, {'x': 1}, overwrite=ow)
    elif meth == 'update_jsondict':
        dd.update_jsondict(fn, {'shape': [1], 'x': 1})
    elif meth == 'delete_files':
        dd.delete_files([fn])
    elif meth == 'delete_files_mixed':   # user files listed before the protected name
        dd.delete_files(['sub/note.txt', 'userfile.txt', fn])
    else:
        mode = meth.split(':')[1]
        with dd.open_file(fn, mode) as f:
            f.write(b'XX' if 'b' in mode else 'XX')


def run_case(case, env):
    res = Result()
    d = env.scratch.new('p')
    try:
        if case['t'] == 'user':
            return run_user(case, env, res, d)
        if len(case['name']) % 2:
            # process history: the same process has created and deleted other arrays before (class-level state such
            # as the sets of protected names must not be affected by that)
            res.count('obs.arrays_deleted_earlier_in_process')
            env.darr.delete_raggedarray(env.darr.asraggedarray(d / 'gone_r', [[1, 2], [3]], accessmode='r+'))
            env.darr.delete_array(env.darr.asarray(d / 'gone_a', [1, 2, 3], accessmode='r+'))
        a, p = make(env, d, case['kind'], case['md'], case.get('via'))
        res.dim('handle_path', case.get('via', 'plain'))
        if case.get('alias'):
            os.symlink(case['alias'][1], p / case['alias'][0])      # relative link inside the array directory
            res.dim('alias', f"{case['alias'][0]} -> {case['alias'][1]}" + (' (dangling)' if not (p / case['alias'][1]).exists() else ''))
        fn = spell(case['name'], case['spelling'])
        if case.get('prelude') == 'read-open':
            # history: the same name is first opened read-only (allowed), through the same DataDir object
            try:
                with a.datadir.open_file(fn, 'r') as f:
                    f.read(1)
            except Exception:
                pass
            try:
                a.datadir.read_txt(fn)
            except Exception:
                pass
        snaproot = d if case.get('via') else p      # with links involved, the link targets are watched too
        before = snapshot(snaproot)
        raised = None
        try:
            invoke(a.datadir, case['method'], fn, case['overwrite'])
        except Exception as e:
            raised = e
        after = snapshot(snaproot)
        res.count('mon.protected_calls')
        res.count('mon.tree_unchanged')
        res.dim('method', case['method'])
        res.dim('spelling', case['spelling'])
        res.dim('name', f"{case['kind']}:{case['name']}")
        what = f"{case['kind']}.datadir.{case['method']}({fn!r}, overwrite={case['overwrite']}) [metadata {'present' if case['md'] else 'absent'}]"
        sp = case['spelling']
        nested = 'nested' if '/' in case['name'] else 'top'
        if after != before:
            res.fail(f'protected-modified:{sp}:{nested}',
                     f'{what} changed the array: {snapdiff(before, after)} (raised {type(raised).__name__ if raised else None})',
                     **case)
        elif raised is None:
            res.fail(f'protected-no-raise:{sp}:{nested}', f'{what} returned normally', **case)
        elif not isinstance(raised, OSError):
            res.fail(f'protected-wrong-exception:{sp}:{nested}:{type(raised).__name__}',
                     f'{what} raised {type(raised).__name__} instead of OSError: {str(raised)[:120]}', **case)
        res.nontrivial = True
        res.sig = repr(sorted(case.items()))
        return res
    finally:
        env.scratch.drop(d)


def rand_json(rng, depth=0):
    r = rng.random()
    if depth > 2 or r < 0.5:
        return rng.choice([rng.randint(-10 ** 12, 10 ** 12), rng.uniform(-1e6, 1e6), True, False, None,
                           'plain', 'é漢 ☃  ', 'tab\tnl\nq"\\', '', 1e-300, 2 ** 70])
    if r < 0.75:
        return [rand_json(rng, depth + 1) for _ in range(rng.randint(0, 4))]
    return {rng.choice(['a', 'bé', 'c c', '', '漢']) + str(i): rand_json(rng, depth + 1) for i in range(rng.randint(0, 4))}


def run_user(case, env, res, d):
    rng = env.rng('user', case['k'])
    a, p = make(env, d, case['kind'], rng.random() < 0.5)
    dd = a.datadir
    arrsnap = {k: v for k, v in snapshot(p).items()}
    # --- JSON dict round trip + overwrite gate
    dct = {f'k{i}': rand_json(rng) for i in range(rng.randint(0, 5))}
    name = rng.choice(['user.json', 'notes.json', 'sub/deep.json', 'üser.json', 'README.json', 'arrayvalues.json'])
    res.count('mon.user_roundtrip')
    try:
        dd.write_jsondict(name, dct)
        back = dd.read_jsondict(name)
        if json.dumps(back, sort_keys=True) != json.dumps(json.loads(json.dumps(dct)), sort_keys=True):
            res.fail('user-json-roundtrip', f'write_jsondict/read_jsondict({name!r}) lost content: {dct!r} -> {back!r}')
    except Exception as e:
        res.fail(f'user-json-raised:{type(e).__name__}', f'JSON round trip of {name!r} raised {type(e).__name__}: {e}')
    res.count('mon.overwrite_gate')
    snap1 = snapshot(p)
    try:
        dd.write_jsondict(name, {'other': 1})
        res.fail('user-json-overwritten-without-flag', f'second write_jsondict({name!r}) without overwrite succeeded')
    except Exception:
        if snapshot(p) != snap1:
            res.fail('user-json-overwrite-refused-but-changed', f'refused second write of {name!r} changed the directory')
    try:
        dd.write_jsondict(name, {'other': 2}, overwrite=True)
        if dd.read_jsondict(name) != {'other': 2}:
            res.fail('user-json-overwrite-true-ineffective', f'overwrite=True did not replace {name!r}')
    except Exception as e:
        res.fail(f'user-json-overwrite-true-raised:{type(e).__name__}', str(e))
    # --- text round trip
    alphabet = 'abc XYZ 0123 éü漢字☃𝄞\t\n"\\{}[]'
    txt = ''.join(rng.choice(alphabet) for _ in range(rng.randint(0, 200)))
    tname = rng.choice(['notes.txt', 'sub/more.txt', 'LOG', 'readme.txt'])
    res.count('mon.user_roundtrip')
    try:
        dd.write_txt(tname, txt)
        # read back as UTF-8 (Darr writes UTF-8); read_txt uses the locale encoding, which is UTF-8 here
        back = dd.read_txt(tname)
        if back != txt:
            res.fail('user-txt-roundtrip', f'write_txt/read_txt({tname!r}) lost content: {txt!r} -> {back!r}')
    except Exception as e:
        res.fail(f'user-txt-raised:{type(e).__name__}', f'text round trip of {tname!r} raised {type(e).__name__}: {e}')
    res.count('mon.overwrite_gate')
    try:
        dd.write_txt(tname, 'second')
        res.fail('user-txt-overwritten-without-flag', f'second write_txt({tname!r}) without overwrite succeeded')
    except OSError:
        if dd.read_txt(tname) != txt:
            res.fail('user-txt-overwrite-refused-but-changed', f'refused second write_txt changed {tname!r}')
    except Exception as e:
        res.fail(f'user-txt-gate-wrong-exception:{type(e).__name__}', str(e))
    # --- delete_files removes exactly the named files
    res.count('mon.delete_exact')
    extra = ['keep1.txt', 'keep2.json', 'sub/keep3.txt']
    for e in extra:
        (p / e).write_text('keep')
    before = snapshot(p)
    victims = [name, 'does-not-exist.txt'] + ([tname] if rng.random() < 0.5 else [])
    try:
        dd.delete_files(victims if rng.random() < 0.5 else [Path(v) for v in victims])
    except Exception as e:
        res.fail(f'user-delete-raised:{type(e).__name__}', f'delete_files({victims}) raised {e}')
    after = snapshot(p)
    expected = {k: v for k, v in before.items() if k not in victims}
    if after != expected:
        res.fail('user-delete-not-exact', f'delete_files({victims}) -> {snapdiff(expected, after)}')
    # the array's own files never changed during all of this
    now = snapshot(p)
    for k, v in arrsnap.items():
        if now.get(k) != v and not k.startswith('sub'):
            res.fail('user-ops-changed-array-file', f'{k} changed during user-file operations')
            break
    res.nontrivial = True
    res.sig = repr(('user', case['k'], name, tname, len(dct), len(txt)))
    return res
