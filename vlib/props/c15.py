"""C15 — copy() and archive() produce faithful, independent replicas."""
import random
import tarfile

import numpy as np

from .. import gens, hist_stale
from ..common import Result
from ..monitors import bits_equal, check_array_disk, describe, same_dtype, snapshot, snapdiff

PID = 'C15'
LEVEL = 'exploration'
RULE = ('generated sources (13 types x 2 byte orders x shapes incl. first axis 0, ragged arrays incl. no subarrays / only '
        'empty subarrays) x target dtype {None, any type castable with a defined result, either byte order} x chunklen '
        '{1, 3, len, None (sparse)} x accessmode x metadata {none, nested} x target {fresh path, path holding another array with other metadata '
        '(overwrite=True)}; after the copy a random mutation sequence '
        '(assign, append, truncate, metadata change, delete) is applied to one side while the other side is re-checked; '
        'archives x {xz, gz, bz2} x {Array, RaggedArray} x filepath {derived, given} x overwrite flag, extracted with '
        'tarfile and compared byte-for-byte with the directory, re-opened and compared. Non-trivial = source with >= 1 '
        'element or an empty first axis / no subarrays; distinct by the case descriptor')
EXHAUSTIVE = False
ASSUMPTIONS = ['casts NumPy leaves platform-defined are not requested; the index type of a ragged copy is not judged']
ANCHORS = ['array:Array.copy', 'array:asarray', 'array:_archunkgenerator', 'raggedarray:RaggedArray.copy',
           'raggedarray:asraggedarray', 'datadir:DataDir.archive', 'array:Array.archive', 'raggedarray:RaggedArray.archive']
REQUIRED = ['mon.copy_overwrites', 'mon.copy_equals_cast', 'mon.metadata_equal', 'mon.independence', 'mon.archive_bytes', 'mon.archive_reopen',
            'mon.archive_overwrite_gate', 'mon.ragged_copy']
MIN_NONTRIVIAL = {'quick': 1500, 'thorough': 12000}

SHAPES = [(0,), (1,), (5,), (0, 2), (4, 3), (2, 1, 3), (3, 2, 2, 1)]
RAGGED = {'none': [], 'onlyempty': [0, 0], 'mixed': [2, 0, 3], 'one': [1], 'seven': [1, 0, 2, 1, 1, 0, 4]}


def cases(tier, seed):
    rng = random.Random(f'C15:{seed}')
    combos = [(t, b) for t in gens.T13 for b in gens.BO]
    n = 1400 if tier == 'quick' else 12000
    for k in range(n):
        nt, bo = combos[k % len(combos)]
        yield {'t': 'copy', 'numtype': nt, 'bo': bo, 'shape': list(SHAPES[(k // 26) % len(SHAPES)] if k < 26 * 7 else rng.choice(SHAPES)),
               'dtypearg': [None, 'other', 'swap'][k % 3], 'chunklen': [1, 3, 'len', None][k % 4] if k % 40 else None,
               'accessmode': ['r', 'r+'][k % 2], 'md': k % 3 == 0, 'mutate': ['src', 'copy'][(k // 2) % 2], 'k': k,
               'over': [None, None, 'array_md', 'bigger_array', 'array_nomd'][k % 5]}
    n = 500 if tier == 'quick' else 5000
    for k in range(n):
        nt, bo = combos[(k * 3) % len(combos)]
        pat = list(RAGGED)[k % len(RAGGED)]
        if pat == 'none' and k % 25 and tier == 'quick':
            pat = 'mixed'      # copying a ragged array without subarrays costs ~1 s (create_raggedarray)
        yield {'t': 'rcopy', 'numtype': nt, 'bo': bo, 'pattern': pat, 'atom': list([(), (2,), (1, 2)][k % 3]),
               'dtypearg': [None, 'other', 'swap'][k % 3], 'accessmode': ['r', 'r+'][k % 2], 'md': k % 2 == 0,
               'mutate': ['src', 'copy'][(k // 2) % 2], 'k': k, 'over': [None, None, 'ragged_md', 'ragged_nomd'][k % 4]}
    # copies made through a handle whose array was changed by other means (by path, second handle, re-creation)
    for c in hist_stale.array_cases(random.Random(f'C15:{seed}:stale'), 150 if tier == 'quick' else 2000, seed,
                                    hops=['h:copy', 'h:copy', 'h:read', 'h:app']):
        c['t'] = 'stale'
        yield c
    for c in hist_stale.ragged_cases(random.Random(f'C15:{seed}:rstale'), 120 if tier == 'quick' else 1500, seed,
                                     hops=['h:copy', 'h:copy', 'h:iter', 'h:app']):
        c['t'] = 'rstale'
        yield c
    for comp in ('xz', 'gz', 'bz2'):
        for kind in ('Array', 'RaggedArray', 'ArrayEmpty', 'RaggedNoSub'):
            for given in (False, True):
                for md in (False, True):
                    yield {'t': 'archive', 'comp': comp, 'kind': kind, 'given': given, 'md': md}
        for kind in ('Array', 'RaggedArray'):
            # an array directory whose own name starts with a dot, holding user files whose names start with a dot
            yield {'t': 'archive', 'comp': comp, 'kind': kind, 'given': False, 'md': True, 'dotnames': True}


def target_dtype(rng, src, how):
    src = np.dtype(src)
    if how is None:
        return None
    if how == 'swap':
        return src.newbyteorder('S') if src.itemsize > 1 else src
    while True:
        d = gens.dt(rng.choice(gens.T13), rng.choice(gens.BO))
        if src.kind == 'c' and d.kind != 'c':
            continue
        return d


def run_case(case, env):
    res = Result()
    if case['t'] == 'rstale':
        hist_stale.run_ragged(env, res, case)
        res.sig = hist_stale.sig_of(case)
        res.dim('case_type', 'ragged copy through a stale handle')
        return res
    if case['t'] == 'stale':
        hist_stale.run_array(env, res, case)
        res.sig = hist_stale.sig_of(case)
        res.dim('case_type', 'copy through a stale handle')
        return res
    d = env.scratch.new('y')
    try:
        {'copy': run_copy, 'rcopy': run_rcopy, 'archive': run_archive}[case['t']](case, env, res, d)
        res.sig = repr(sorted(case.items(), key=str))
        res.dim('case_type', case['t'])
        return res
    finally:
        env.scratch.drop(d)


MD = {'fs': 20000, 'nested': {'a': [1, 2.5, None], 'é': 'ü'}, 'l': [[1], [2]]}


def run_copy(case, env, res, d):
    D = env.darr
    rng = env.rng('copy', case['k'])
    src_dtype = gens.dt(case['numtype'], case['bo'])
    shape = tuple(case['shape'])
    tgt = target_dtype(rng, src_dtype, case['dtypearg'])
    base = gens.random_values(rng, src_dtype, shape) if tgt is None or tgt.kind == src_dtype.kind and \
        tgt.itemsize >= src_dtype.itemsize else gens.safe_source(rng, src_dtype, tgt, shape)
    src = D.asarray(d / 'src', base, metadata=dict(MD) if case['md'] else None, accessmode='r+', chunklen=2)
    cl = case['chunklen']
    cl = max(1, shape[0]) if cl == 'len' else cl
    if cl == 3 and case['k'] % 8 == 2:
        cl = np.uint8(3)            # a chunk length spelled as a NumPy scalar of a narrow type
    expected = base if tgt is None else base.astype(tgt)
    over = case.get('over')
    if over:       # the target path already holds another array (with its own metadata): overwrite=True must replace it
        D.asarray(d / 'copy', np.arange(40 if over == 'bigger_array' else 3, dtype='int64'),
                  metadata=None if over == 'array_nomd' else {'stale': 'old', 'fs': 1, 'more': [1, 2]})
        res.count('mon.copy_overwrites')
    res.dim('target', over or 'fresh path')
    try:
        cp = src.copy(d / 'copy', dtype=tgt, chunklen=cl, accessmode=case['accessmode'], overwrite=bool(over))
    except Exception as e:
        res.fail(f'copy-raised:{type(e).__name__}:{"empty" if shape[0] == 0 else "nonempty"}-source',
                 f'Array.copy(dtype={tgt}, chunklen={cl}) of {src_dtype.str}{list(shape)} raised {type(e).__name__}: {str(e)[:160]}', **case)
        return
    res.count('mon.copy_equals_cast')
    res.dim('dtypearg', str(case['dtypearg']))
    if not check_array_disk(res, D, d / 'copy', cp, expected, mechprefix=f'copy:{"dtype-given" if tgt is not None else "no-dtype"}'):
        for f in res.fails:
            f['witness'].update(case)
        return
    if cp.accessmode != case['accessmode']:
        res.fail('copy:accessmode', f'copy has accessmode {cp.accessmode}, requested {case["accessmode"]}', **case)
        return
    res.count('mon.metadata_equal')
    want_md = MD if case['md'] else {}
    if dict(cp.metadata) != want_md or dict(D.Array(d / 'copy').metadata) != want_md or \
            (d / 'copy' / 'metadata.json').exists() != bool(want_md):
        res.fail('copy:metadata-differs', f'copy metadata {dict(cp.metadata)!r}, source {want_md!r}', **case)
        return
    # ---- independence under later mutation of one side
    res.count('mon.independence')
    a_path, b_path = (d / 'src', d / 'copy') if case['mutate'] == 'src' else (d / 'copy', d / 'src')
    b_expected = expected if case['mutate'] == 'src' else base
    b_md = want_md
    b_before = snapshot(b_path)
    a = D.Array(a_path, accessmode='r+')
    muts = []
    try:
        if len(a):
            a[0] = a[-1]
            muts.append('assign')
        a.append(a[:1] if len(a) else np.zeros((1,) + tuple(a.shape[1:]), dtype=a.dtype))
        muts.append('append')
        a.metadata['changed'] = 1
        muts.append('metadata')
        D.truncate_array(a, 0)
        muts.append('truncate')
        if rng.random() < 0.5:
            D.delete_array(a)
            muts.append('delete')
    except Exception as e:
        res.fail(f'independence:mutation-raised:{type(e).__name__}', f'mutating {case["mutate"]} after copy: {e} (done: {muts})', **case)
        return
    if snapshot(b_path) != b_before:
        res.fail(f'independence:other-side-changed:mutated-{case["mutate"]}',
                 f'after {muts} on the {case["mutate"]} the other directory changed: {snapdiff(b_before, snapshot(b_path))}', **case)
        return
    other = D.Array(b_path)
    if not bits_equal(other[:], b_expected) or dict(other.metadata) != b_md:
        res.fail(f'independence:other-side-content:mutated-{case["mutate"]}', 'other side no longer equals its expected contents', **case)
    res.nontrivial = True


def run_rcopy(case, env, res, d):
    D = env.darr
    rng = env.rng('rcopy', case['k'])
    src_dtype = gens.dt(case['numtype'], case['bo'])
    atom = tuple(case['atom'])
    tgt = target_dtype(rng, src_dtype, case['dtypearg'])
    lens = RAGGED[case['pattern']]
    mk = (lambda k: gens.random_values(rng, src_dtype, (k,) + atom)) if tgt is None or \
        (tgt.kind == src_dtype.kind and tgt.itemsize >= src_dtype.itemsize) else \
        (lambda k: gens.safe_source(rng, src_dtype, tgt, (k,) + atom))
    items = [mk(k) for k in lens]
    md = dict(MD) if case['md'] else None
    if items:
        src = D.asraggedarray(d / 'src', [x.copy() for x in items], dtype=src_dtype, metadata=md, accessmode='r+')
    else:
        src = D.asraggedarray(d / 'src', [mk(1)], dtype=src_dtype, metadata=md, accessmode='r+')
        D.truncate_raggedarray(src, 0)
        src = D.RaggedArray(d / 'src', accessmode='r+')
    res.count('mon.ragged_copy')
    res.dim('ragged_pattern', case['pattern'])
    over = case.get('over')
    if over:
        D.asraggedarray(d / 'copy', [[9, 9, 9], [8]], dtype='int64',
                        metadata=None if over == 'ragged_nomd' else {'stale': 'old', 'fs': 1})
        res.count('mon.copy_overwrites')
    res.dim('target', over or 'fresh path')
    try:
        cp = src.copy(d / 'copy', dtype=tgt, accessmode=case['accessmode'], overwrite=bool(over))
    except Exception as e:
        res.fail(f'rcopy-raised:{type(e).__name__}:{case["pattern"]}',
                 f'RaggedArray.copy(dtype={tgt}) of pattern {lens} atom {atom} raised {type(e).__name__}: {str(e)[:160]}; '
                 f'left behind: {sorted(p.name for p in (d / "copy").iterdir()) if (d / "copy").exists() else None}', **case)
        return
    if cp.accessmode != case['accessmode']:
        res.fail(f'rcopy:accessmode:{case["pattern"]}', f'ragged copy has accessmode {cp.accessmode}, requested {case["accessmode"]}', **case)
        return
    want_dtype = src_dtype if tgt is None else tgt
    expected = [x.astype(want_dtype) for x in items]
    for tag, h in (('returned', cp), ('fresh', D.RaggedArray(d / 'copy'))):
        if len(h) != len(expected) or not same_dtype(h.dtype, want_dtype) or tuple(h.atom) != atom or any(
                not bits_equal(np.asarray(h[k]), expected[k]) for k in range(len(expected))):
            res.fail(f'rcopy:{tag}-differs:{"dtype-given" if tgt is not None else "no-dtype"}',
                     f'{tag} copy: len {len(h)} dtype {np.dtype(h.dtype).str} atom {h.atom}; expected len {len(expected)} '
                     f'dtype {want_dtype.str} atom {atom}', **case)
            return
    if cp.accessmode != case['accessmode']:
        res.fail('rcopy:accessmode', f'copy has accessmode {cp.accessmode}', **case)
        return
    res.count('mon.metadata_equal')
    want_md = MD if case['md'] else {}
    if dict(cp.metadata) != want_md or (d / 'copy' / 'metadata.json').exists() != bool(want_md):
        res.fail('rcopy:metadata-differs', f'copy metadata {dict(cp.metadata)!r}, source {want_md!r}', **case)
        return
    res.count('mon.independence')
    a_path, b_path = (d / 'src', d / 'copy') if case['mutate'] == 'src' else (d / 'copy', d / 'src')
    b_expected = expected if case['mutate'] == 'src' else items
    b_before = snapshot(b_path)
    a = D.RaggedArray(a_path, accessmode='r+')
    try:
        a.append(np.zeros((2,) + atom, dtype=a.dtype))
        a.metadata['changed'] = 1
        D.truncate_raggedarray(a, 0)
        if rng.random() < 0.5:
            D.delete_raggedarray(a)
    except Exception as e:
        res.fail(f'independence:ragged-mutation-raised:{type(e).__name__}', f'{e}', **case)
        return
    if snapshot(b_path) != b_before:
        res.fail(f'independence:ragged-other-side-changed:mutated-{case["mutate"]}', f'{snapdiff(b_before, snapshot(b_path))}', **case)
        return
    o = D.RaggedArray(b_path)
    if len(o) != len(b_expected) or any(not bits_equal(np.asarray(o[k]), b_expected[k]) for k in range(len(o))):
        res.fail(f'independence:ragged-other-side-content:mutated-{case["mutate"]}', 'other side changed', **case)
    res.nontrivial = True


def run_archive(case, env, res, d):
    D = env.darr
    kind, comp = case['kind'], case['comp']
    md = dict(MD) if case['md'] else None
    dname = '.data.darr' if case.get('dotnames') else 'data.darr'
    p = d / dname
    if kind == 'Array':
        h = D.asarray(p, np.arange(30, dtype='>f4').reshape(10, 3), metadata=md)
    elif kind == 'ArrayEmpty':
        h = D.asarray(p, np.zeros((0, 2), dtype='int16'), metadata=md)
    elif kind == 'RaggedArray':
        h = D.asraggedarray(p, [[1, 2], [], [3]], dtype='uint8', metadata=md)
    else:
        h = D.asraggedarray(p, [[1, 2]], dtype='float64', metadata=md)
        D.truncate_raggedarray(h, 0)
        h = D.RaggedArray(p)
    (p / 'usernotes.txt').write_text('a user file is archived too')
    if case.get('dotnames'):
        (p / '.provenance').write_text('so is a user file whose name starts with a dot')
        (p / '.cache').mkdir()
        (p / '.cache' / 'x.bin').write_bytes(b'\x00\x01')
    given = d / 'out' / f'given-name.tar.{comp}'
    (d / 'out').mkdir()
    before = snapshot(p)
    try:
        ret = h.archive(filepath=str(given) if case['given'] else None, compressiontype=comp)
    except Exception as e:
        res.fail(f'archive-raised:{type(e).__name__}', f'archive({comp}) of {kind} raised {e}', **case)
        return
    want_path = given if case['given'] else d / f'{dname}.tar.{comp}'
    res.count('mon.archive_bytes')
    if str(ret) != str(want_path) or not want_path.is_file():
        res.fail('archive:path', f'archive returned {ret}, expected {want_path} (exists: {want_path.exists()})', **case)
        return
    if snapshot(p) != before:
        res.fail('archive:source-modified', f'archiving changed the array directory: {snapdiff(before, snapshot(p))}', **case)
        return
    ex = d / 'extracted'
    ex.mkdir()
    with tarfile.open(want_path, f'r:{comp}') as tf:
        try:
            tf.extractall(ex, filter='data')
        except TypeError:
            tf.extractall(ex)
    got = snapshot(ex / dname)
    if got != before:
        res.fail('archive:extraction-differs', f'extracted tree differs from the directory: {snapdiff(before, got)}; '
                 f'top-level entries {sorted(x.name for x in ex.iterdir())}', **case)
        return
    res.count('mon.archive_reopen')
    try:
        o = D.open(ex / dname)
        if kind.startswith('Array'):
            same = bits_equal(o[:], h[:]) and dict(o.metadata) == dict(h.metadata)
        else:
            same = len(o) == len(h) and all(bits_equal(np.asarray(o[k]), np.asarray(h[k])) for k in range(len(h))) \
                and dict(o.metadata) == dict(h.metadata)
        if not same:
            res.fail('archive:reopened-differs', 'extracted archive opens but differs from the source', **case)
            return
    except Exception as e:
        res.fail(f'archive:reopen-raised:{type(e).__name__}', str(e), **case)
        return
    # ---- overwrite gate
    res.count('mon.archive_overwrite_gate')
    old = want_path.read_bytes()
    try:
        h.archive(filepath=str(given) if case['given'] else None, compressiontype=comp)
        res.fail('archive:replaced-without-overwrite', 'second archive() without overwrite=True succeeded', **case)
        return
    except Exception:
        if not want_path.exists():
            res.fail('archive:refused-but-removed', 'second archive() without overwrite=True raised, but the existing archive is gone', **case)
            return
        if want_path.read_bytes() != old:
            res.fail('archive:refused-but-modified', 'refused second archive() changed the existing archive', **case)
            return
    want_path.write_bytes(b'stale')
    try:
        h.archive(filepath=str(given) if case['given'] else None, compressiontype=comp, overwrite=True)
        with tarfile.open(want_path, f'r:{comp}') as tf:
            names = tf.getnames()
        if dname not in names:
            res.fail('archive:overwrite-true-bad-archive', f'names {names[:5]}', **case)
    except Exception as e:
        res.fail(f'archive:overwrite-true-raised:{type(e).__name__}', str(e), **case)
    res.nontrivial = True
