#!/usr/bin/env python3
"""Regenerates MANIFEST.json from the table below (python3 tools/mkmanifest.py)."""
import json
from pathlib import Path

HERE = Path(__file__).resolve().parent.parent

# id: (level, technique, level text, level note)
CHECKS = {
 'C06': ('exploration',
         'complete enumeration of generated programs; Python-family code executed, foreign code decided by strict template parsers + reference interpreters with own token tables; directory snapshots',
         "All 13 types x 2 byte orders x 9 shapes x 12 languages x 3 path modes are generated from real arrays of pairwise distinct values. numpy/numpymemmap/python/darr snippets are executed with the working directory the path mode implies and compared bitwise; R/Matlab/Scilab/Julia/IDL/Mathematica/Maple programs must match a strict template (else malformed) and are evaluated by a reference interpreter written from the languages' documentation: the result must be the stored array (row-major) or its transpose (column-major) with the same element type. Offer table and readcodelanguages are compared with an own transcription of docs/readcode.rst; snapshots show that running code changes no file, also on empty arrays. Half of the cases run after a ragged array was made in the same process (process history); a no-README stage executes the python-family code on a directory whose README.txt was removed.",
         'No foreign interpreter exists in the sandbox: the reference semantics are our transcription (DESIGN Appendix A) - a misunderstanding on our side is the residual risk.'),
 'C07': ('exploration',
         "enumeration of ragged programs; per-language accessor template parsed and evaluated for every k under the language's indexing rules; darr/numpymemmap executed",
         "For ragged arrays over value type x index type x byte order x atom rank 0-3 x subarray-length patterns (incl. empty subarrays, 1/2/3/7 subarrays) each offered program is split into index-read block, values-read block (C06 interpreters), accessor and example; the accessor is evaluated for every valid k with the language's index origin, end inclusiveness and axis order and must return exactly subarray k (empty ones with the right dimensions); the example must announce and bind the same existing subarray; offered iff values and index type are supported; executed snippets must leave the directory byte-identical.",
         'Reference semantics are our transcription; shapes compared after dropping singleton dimensions for column-major languages; index-arithmetic overflow and the R 2^31 cut-off are not modelled.'),
 'C15': ('exploration',
         'NumPy cast reference + independent decoder for copies; post-copy mutation of one side with snapshot of the other; tar extraction compared byte-for-byte',
         'Generated Array and RaggedArray sources (all types, both byte orders, empty first axis, no / only-empty subarrays) are copied with every kind of dtype argument, chunk length, access mode and metadata; the copy must equal src.astype(dtype) through returned handle, fresh handle and raw files, with identical metadata. One side is then mutated (assign, append, metadata, truncate, delete) while a byte snapshot and re-read of the other side must not change. Archives for xz/gz/bz2 are extracted with tarfile and compared byte-for-byte with the directory, re-opened, and the overwrite gate is exercised. Also: copies (Array and RaggedArray) and iter_arrays through a stale handle, chunk lengths given as narrow NumPy scalars, the access mode of ragged copies, and archives of dot-named directories holding dot-named user files.',
         'Platform-defined casts are not requested; the index type of a ragged copy is not judged.'),
 'C17': ('fault_enumeration',
         'sys.monitoring LINE-event crash-point recorder (directory snapshot between every two executed Darr lines) + synthesised torn writes; offline check of every materialised state',
         'For each scenario (append, iterappend, iterappend with failing iterable / bad chunk, truncate, four metadata changes) on 1-D/2-D Arrays and RaggedArrays from empty and non-empty starts, a LINE-event monitor restricted to Darr code snapshots the directory between every two executed source lines; every distinct state, and torn versions of every file that changes between consecutive states, is materialised and opened: an open that succeeds must show the state before, after, or original + a whole number of chunks/subarrays, and legitimate metadata. Every state is opened in mode r and, on a second copy, in mode r+; the appended iterable may itself be a Darr object.',
         'Crash granularity is Darr source lines plus the listed torn variants; cross-file write reordering by the OS (power loss) is outside the property.'),
 'C04': ('exploration',
         'history + executable list-of-ndarrays model; bounded-exhaustive op sequences plus long random histories',
         'Operation sequences over append / iterappend / truncate / mode change / reopen (plus copy, overwrite re-creation, rejected appends in the random part) run on real RaggedArrays from asraggedarray and create_raggedarray starts across atoms, 13 value types, both byte orders and the 7 index types; after each step len, narrays, atom, dtype, size, every ra[k] incl. both out-of-range neighbours, non-integer indices, iter_arrays on a (start,end,step) grid and the stored index type are compared with a list-of-arrays model on the live and on a fresh handle. Also: appends inside one open_arrays() context with reads inside it, items of opposite byte order, a RaggedArray as the iterable, a forty-subarray start indexed with narrow NumPy integer scalars, and stale-handle / held-context histories (array changed by path, second handle or re-creation behind a long-lived handle).',
         'Only valid appends are judged here (failing ones belong to C10); index types large enough for the values length.'),
 'C05': ('exploration',
         'independent structural decoder (no Darr code) evaluated after every step of ragged histories',
         'After every step of the ragged history workload a decoder that shares no code with Darr reads values/, indices/ and the three JSON descriptors and checks the structural invariant (well-formed sub-arrays, (N,)+atom, (n,2) integer indices, 0-based contiguous non-decreasing rows ending at N, consistent top-level len/size/atom/numtype/darrobject) and that subarray k cut from the raw files equals ra[k]; also after calls that should have been rejected. Also after every step of stale-handle and held-context ragged histories (incl. same-byte-size re-creation behind the handle).',
         'Trusts vlib/decoder.py; orphaned values with n = 0 are an observation, not a violation.'),
 'C08': ('exploration',
         'Readme monitor (regeneration from a fresh handle + independent parse vs independent decode) after every step of Array and ragged histories',
         'After every step of Array histories (incl. metadata creation/deletion, overwrite re-creation) and ragged histories (incl. growth ladders through 5-9 subarrays by append and iterappend, copy) README.txt of the array - and of a ragged array and both its sub-arrays - must equal what Darr generates from a freshly opened handle, its independently parsed statements must agree with the independent decoder, it must contain every current readcode() snippet, and mention metadata.json iff metadata exist. Also stale-handle histories with metadata changes through both handles and sequences that return the array to exactly the state the long-lived handle documented last.',
         "Regeneration uses Darr's own readcodetxt on a fresh handle (staleness oracle); the independent parse covers format statements only."),
 'C10': ('fault_enumeration',
         'enumerated fault positions/kinds incl. index overflow and kernel-enforced write failures on either file (forked child); post-failure oracle = raised + open + structural decode + subarrays',
         'Every failure position for every kind (iterable raises, wrong atom, wrong rank, unconvertible item, index overflow at the 127/255/32767 boundary for small index types, RLIMIT_FSIZE write failure on the values file and on the indices file at offsets around every item boundary) through append and iterappend; afterwards the call must have raised, RaggedArray(path) must open, the independent structural decoder must accept the directory and the subarrays must be the original ones followed by those completely appended. The exception class raised by a failing iterable rotates; one overflow case uses a relative-path handle whose producer has changed the working directory.',
         'RLIMIT_FSIZE limits all files; the file meant to fail is made larger than all others incl. the 8 kB README.'),
 'C09': ('fault_enumeration',
         'enumerated fault positions/kinds incl. kernel-enforced write failure (RLIMIT_FSIZE in a forked child); post-failure oracle = raised + fresh open + independent decode + contents',
         "Every failure position 0..n for every failure kind (iterable raises, wrong trailing shape, wrong rank, unconvertible element, complex into real, integer too large, 0-d chunk) from empty and non-empty 1-D..3-D starts through append and iterappend; real write failures provoked by lowering RLIMIT_FSIZE in a forked child to every offset around every chunk boundary (-1/0/+1 byte, mid element, mid row, one item in, mid chunk) for stdio-buffered, medium and large chunks. After the failure: the call must have raised, darr.Array(path) must open, the independent decoder must accept the files, contents must equal original + completely appended chunks, live handle = fresh handle. The exception class raised by a failing iterable rotates (incl. Darr's own AppendDataError).",
         'RLIMIT_FSIZE limits all files of the process; data files are kept larger than README/JSON, and for empty starts only offsets above the README size are used (stated in DESIGN).'),
 'C12': ('exploration',
         'NumPy reference model + ownership inspection + /proc fd/map census after every access + forked durability children',
         "Generated sequences of reads and assignments with index expressions composed from an enumerated pool (basic, advanced, malformed) run on real arrays of rank 1-4, outside and inside open_array(); each result is compared with the NumPy reference (value, shape, dtype, error class), inspected for detachment from the memory map, and after every access the process is searched for descriptors or mappings of the array. Results kept across overwrite / truncate / delete / re-creation of a 2.4 MB array are re-read in a forked child whose exit status is observed. Also: failed-open events (directory renamed away and back), a switch to r+ inside the open context of a read-only handle (an accepted write must be durable), and stale-handle sequences incl. refused calls inside the handle's context, in forked children with the fd/map census.",
         'Scalar results are compared as 0-d arrays; error classes up to subclass relation.'),
 'C19': ('exploration',
         'bounded-exhaustive schedule enumeration, one forked child per schedule; wait status + value model + fd/map census',
         'Every well-formed interleaving up to a length bound of generator starts/advances/closes, context entries/exits, element reads and writes on one Array object (2-3 generators, nested contexts), completed by every order of finishing the survivors, runs in its own forked child on a 4.8 MB array: death by signal, a chunk or element differing from the model at that moment, a lost write, or an fd/mapping left open at the end is a violation. Plus look-ahead cases: a generator of small chunks (1 to 100 000 rows) with element writes 0 to 400 000 rows ahead of it after every advance.',
         'Interleavings are single-threaded by construction; multi-threaded use of one Array is not a stated property.'),
 'C11': ('exploration',
         'directory-snapshot monitor over the complete entry-point x origin-of-mode x state matrix',
         "Every mutating entry point of Array and RaggedArray is called through a handle whose mode r was obtained in each of five ways, in each array state (empty first axis, non-empty, ragged without subarrays / with only empty subarrays, with and without metadata); the call must raise and a recursive byte snapshot of the directory must be identical; after accessmode = r+ the same call must succeed where valid and show its effect. The matrix (880 cells) is enumerated completely in both tiers. Origins of mode r also include: assigned while the handle's own r+ map is open (context, suspended generator), an explicit r+ context beside a live read-only generator, and the handle returned by copy().",
         'Any exception class counts as "raises"; explicit open_array(accessmode="r+") overrides are out of the matrix.'),
 'C13': ('exploration',
         'history + executable dict model (JSON round trip); bounded-exhaustive op sequences plus random ones',
         'All sequences up to length 3/4 over 15 metadata operations from six start states on Array and RaggedArray, with values rotating through 24 kinds (NaN, inf, non-ASCII, control characters, nested, NumPy scalars/arrays, tuples, huge ints); after each step every read accessor of the live and of a fresh handle is compared with the JSON round trip of a model dict, metadata.json must exist iff the model is non-empty, failing calls must raise the stated class and leave the file untouched. A quarter of the histories read the live handle in mode r; update() is also called with a one-shot iterable of pairs.',
         'Own JSON encoder is the reference for NumPy conversions; bytes and np.bool_ values are not judged.'),
 'C16': ('exploration',
         'directory-snapshot monitor (target, parent, symlink targets) over the complete delete and create matrices',
         'delete_array/delete_raggedarray are run against arrays seeded with each kind of foreign content at each location and through each call form, and against wrong-kind targets; each creating function is run with overwrite False/True over each kind of previous occupant seeded with foreign entries. Byte snapshots of the target, its parent and the content behind symlinks decide whether anything foreign was modified; exception classes are checked. Creators are also given iterables that yield nothing.',
         'For a symlink that itself carries a protected name only the link target must stay untouched.'),
 'C18': ('fault_enumeration',
         'enumerated single-field corruption catalogue applied to fresh copies; observe constructor/open/delete/truncate outcome + snapshot',
         'Every single-field corruption of descriptor and data-file length (catalogue of ~130 per array kind, incl. every byte amount from -all to +2 items) is applied to 1-D, N-D, empty and ragged sub-arrays and handed to each consumer; a successful open, a by-path delete/truncate that does not raise TypeError, or any changed byte is a violation. Enumerated completely; thorough repeats for all 26 type/byte-order bases. The warm variant keeps a live r+ handle object on the directory while the by-path consumer runs.',
         'Consistent-but-different descriptors are valid descriptions and out of scope; [] as shape is not judged.'),
 'C20': ('exploration',
         'directory-snapshot monitor over the complete method x protected-name x spelling x mode matrix + generated user-file round trips',
         'Each public DataDir writer/deleter/opener is called with every protected name of an Array and a RaggedArray (including names below values/ and indices/) under nine spellings; the call must raise OSError and leave a byte-identical snapshot. Generated JSON dicts and unicode texts are round-tripped through user files, the overwrite gate and the exact-set semantics of delete_files are checked. The handle may have been opened through a symlinked parent, a symlink to the array directory, <symlink>/../<name>, or own a symlinked constituent (link targets are part of the watched snapshot); half of the cases run after other arrays were created and deleted in the same process.',
         'Absolute-path and symlink-alias spellings are not judged; mode "rb" is not judged.'),
 'C01': ('exploration',
         'reference-model monitor (np.asarray/astype/np.full) + independent decoder over a generated structure grid',
         'Generated creation calls over the product of type, byte order, memory layout, rank, input form, dtype argument, chunk length, fill value/function and special bit patterns are executed against the real asarray/create_array; the returned handle, a fresh handle and an independent decoder of the raw files must all equal the NumPy reference bit for bit for every chunk length; unsupported element types must raise TypeError with nothing left on disk. Sampled, not exhaustive: the grid is a product of ~10 dimensions. Chunk lengths are also given as narrow NumPy scalars; fill functions include one that leaves the 32-bit range at index 3.',
         'NumPy conversion semantics are the reference; platform-defined casts are excluded from the generators.'),
 'C02': ('exploration',
         'independent format decoder (no Darr code) evaluated after every step of generated histories; struct.pack byte table',
         'After every step of random histories (create/append/iterappend/assign/truncate/metadata/overwrite re-creation) a decoder sharing no code with Darr reads the three files and must reconstruct exactly what live and fresh Darr handles report; the 13x2 type/byte-order table is enumerated completely against struct.pack bytes through four different writers. Since the fifth seed wave also stale-handle histories (vlib/hist_stale.py): the array is truncated by path, changed through a second handle or re-created behind a long-lived handle that is then read, assigned, appended to or truncated (also while it holds its own context open); decoder and fresh handle vs model after every step. One history in five addresses its array as <symlink>/../<name>; histories start from inputs of six memory layouts.',
         'Trusts vlib/decoder.py as transcription of the documented format and struct.pack as encoding reference.'),
 'C03': ('exploration',
         'history + executable NumPy model; bounded-exhaustive op sequences plus long random histories',
         'All operation sequences up to length 3 (quick) / 4 (thorough) over an 18-op alphabet from five start shapes, plus long random histories over 29 op kinds and all 26 type/byte-order combinations, run on the real Array; after each step live handle, fresh handle and raw file are compared with a NumPy model, appended/truncated files are checked to preserve the leading bytes, and rejected calls must raise and leave file and descriptor unchanged. Also: composites inside one open context (with reads inside it, truncation inside it, and a failing append in the middle), stale-handle and held-context histories, <symlink>/../<name> path spellings and six source layouts.',
         'NumPy concatenate/slicing/assignment semantics are the reference; ambiguous inputs (bool indices, NaN->int) excluded.'),
 'C14': ('exploration',
         'closed-form oracle over exhaustively enumerated parameter tuples + icontract postcondition on fit_frames',
         'Every (n, chunklen, stepsize, start, end, remainder) tuple with n up to a bound is executed against the real iterindices/iterchunks/fit_frames and compared with an independent closed form; every out-of-range tuple on a grid must raise ValueError; fit_frames as called from inside Darr carries a postcondition. Exhaustive below the bound, sampled above it. Also: arguments given as NumPy scalars of narrow types, and chunk iteration through a stale handle (array changed by other means, refused calls inside its context).',
         'Trusts the closed form of DESIGN Appendix B as the transcription of the statement; frame arithmetic assumed independent of dtype (two dtypes, 1-D and 2-D exercised).'),
}

NOT_YET = {}


def main():
    props = [json.loads(l) for l in (HERE / 'properties.jsonl').read_text().splitlines() if l.strip()]
    checks = []
    na = []
    for p in props:
        pid = p['id']
        if pid in CHECKS:
            level, tech, text, note = CHECKS[pid]
            checks.append({
                'property_id': pid,
                'quick_cmd': f'./check {pid} --tier quick',
                'thorough_cmd': f'./check {pid} --tier thorough',
                'evidence_file': f'evidence/{pid}.json',
                'replay_cmd_template': f'./check {pid} --replay {{path}}',
                'engine': 'vlib',
                'level_claimed': {'category': level, 'text': text, 'design_ref': f'DESIGN.md section 4, "### {pid}"'},
                'level_note': note,
                'technique': tech,
            })
        else:
            na.append({'property_id': pid,
                       'reason': NOT_YET.get(pid, 'check not built yet in this round (runtime-monitoring design exists in '
                                                  'DESIGN.md section 4; the property is applicable to this technique)')})
    m = {
        'version': 1,
        'setup_cmd': './check --setup',
        'hooks': {
            'guard': 'DARR_VERIF',
            'enable': 'no source hooks: monitors attach from outside (sys.monitoring, wrappers, /proc, RLIMIT_FSIZE, '
                      'child exit status); ./check exports DARR_VERIF=1 and imports darr from /repo\'s working tree',
            'baseline_off_cmd': 'cd /repo && /venv/bin/python -m pytest -ra -q -p no:cacheprovider --timeout=900 '
                                '--continue-on-collection-errors',
            'source_commits': [],
            'add_only': True,
        },
        'engines': [
            {'name': 'vlib', 'path': 'vlib/', 'serves_properties': [c['property_id'] for c in checks],
             'kind_free_text': 'runtime monitoring: sharded workload runner (vlib/run.py, vlib/worker.py) executing the '
                               'real Darr code from /repo under generated, enumerated and fault-injected workloads; '
                               'monitors = independent format decoder, NumPy/list/dict reference models, directory '
                               'snapshots, /proc fd+maps inspection, sys.monitoring crash-point recorder, child exit '
                               'statuses; known-finding filter keyed by mechanism'},
        ],
        'checks': checks,
        'not_applicable': na,
        'notes': 'Exit codes: 0 held on everything observed; 1 unlisted violation (VIOLATION line); 2 inconclusive '
                 '(deciding monitor not reached, too few cases, worker died). VERIF_SEED and VERIF_TIER honoured. '
                 'Genuine defects found by the checks were repaired in /repo by "fix:" commits and are recorded in '
                 'known_findings.json.',
    }
    (HERE / 'MANIFEST.json').write_text(json.dumps(m, indent=1) + '\n')
    print(f'{len(checks)} checks, {len(na)} not_applicable')


if __name__ == '__main__':
    main()
