"""C19 — interleaved iterators/contexts on one Array are memory-safe and coherent.

Every schedule runs in its own fork()ed child; the deciding observations are
the child's wait status (a signal is a violation), per-step value comparison
with a model, lost writes, and the FdMap monitor at the end."""
import itertools
import random

import numpy as np

from ..common import Result
from ..monitors import fdmap
from ..procs import run_forked
from .c14 import frames

PID = 'C19'
LEVEL = 'exploration'
RULE = ('all well-formed schedules up to length L over {start g, advance g (incl. the exhausting advance), close g, '
        'enter context, exit context (LIFO, depth <= 2), read element, write element} for G generators with different '
        'chunk parameters (quick: G=2, L<=5; thorough: G=3, L<=6 and G=2, L=7, plus random schedules of length 8-14), '
        'each completed by every order of finishing the survivors; the same for a read-only handle with r+ contexts and '
        'generators of differing access modes (without writes); one forked child per schedule on a 4.8 MB array. '
        'Non-trivial = at least two users of the array overlap in time; distinct by the full action sequence')
EXHAUSTIVE = True
EXHAUSTIVE_PART = 'all schedules up to the length bound for the given number of generators'
ASSUMPTIONS = ['single-threaded interleavings only (generators and contexts in one thread)',
               'in the mixed-access-mode schedules (read-only handle, r+ contexts, generators with differing modes) no element '
               'writes are issued: whether a write through a nested r+ context on a read-only owner must succeed is not fixed by the statement']
ANCHORS = ['array:Array._open_array', 'array:Array.iterchunks', 'array:Array.open_array',
           'array:Array.__getitem__', 'array:Array.__setitem__']
REQUIRED = ['mon.child_status', 'mon.chunk_values', 'mon.fdmap_end', 'mon.writes_persist']
MIN_NONTRIVIAL = {'quick': 2000, 'thorough': 20000}

N = 600_000
GPARAMS = [dict(chunklen=300_000),                                  # 2 chunks
           dict(chunklen=250_000, stepsize=175_000),                # 3 frames (last is a remainder)
           dict(chunklen=200_000, startindex=250_000)]              # 2 chunks (150k remainder)
RW_INDEX = [200_000, 400_000, 5, 250_005, 450_005, 599_999]   # the first two lie in the overlap of consecutive g1 frames


def gframes(g):
    p = GPARAMS[g]
    c = p['chunklen']
    return frames(p.get('startindex', 0), N, c, p.get('stepsize', c), True)


NFRAMES = [len(gframes(g)) for g in range(3)]


def enumerate_schedules(G, L):
    """All well-formed action sequences of length <= L (as tuples of strings)."""
    out = []

    def rec(seq, status, adv, depth):
        if seq:
            out.append((tuple(seq), tuple(status), depth))
        if len(seq) == L:
            return
        started = sum(1 for s in status if s != 0)
        if started < G:
            g = started
            status2 = list(status)
            status2[g] = 1
            rec(seq + [f'S{g}'], status2, adv, depth)
        for g in range(G):
            if status[g] == 1:
                status2, adv2 = list(status), list(adv)
                adv2[g] += 1
                if adv2[g] > NFRAMES[g]:
                    status2[g] = 2          # this advance exhausts the generator
                rec(seq + [f'A{g}'], status2, adv2, depth)
                status3 = list(status)
                status3[g] = 2
                rec(seq + [f'C{g}'], status3, adv, depth)
        if depth < 2:
            rec(seq + ['E'], status, adv, depth + 1)
        if depth > 0:
            rec(seq + ['X'], status, adv, depth - 1)
        rec(seq + ['R'], status, adv, depth)
        rec(seq + ['W'], status, adv, depth)

    rec([], [0] * G, [0] * G, 0)
    return out


def completions(status, depth):
    """Every order of finishing the survivors (context exits stay LIFO)."""
    opengens = [f'C{g}' for g, s in enumerate(status) if s == 1]
    items = opengens + ['X'] * depth
    seen = set()
    for perm in itertools.permutations(items):
        if perm not in seen:
            seen.add(perm)
            yield perm


def overlap(seq):
    """Does the schedule ever have two simultaneous users of the array?"""
    users = 0
    best = 0
    openg = set()
    adv = {}
    for a in seq:
        if a[0] == 'S':
            pass   # a generator becomes a user at its first advance
        elif a[0] == 'A':
            g = int(a[1])
            if g not in openg and adv.get(g, 0) == 0:
                openg.add(g)
                users += 1
            adv[g] = adv.get(g, 0) + 1
            if adv[g] > NFRAMES[g] and g in openg:
                openg.discard(g)
                users -= 1
        elif a[0] == 'C':
            g = int(a[1])
            if g in openg:
                openg.discard(g)
                users -= 1
        elif a == 'E':
            users += 1
        elif a == 'X':
            users -= 1
        elif a in 'RW':
            best = max(best, users + 1)
        best = max(best, users)
    return best >= 2


def cases(tier, seed):
    plans = [(2, 5)] if tier == 'quick' else [(3, 6), (2, 7)]
    seen = set()
    for G, L in plans:
        for seq, status, depth in enumerate_schedules(G, L):
            for comp in completions(status, depth):
                full = seq + comp
                if full in seen:
                    continue
                seen.add(full)
                yield {'G': G, 'sched': list(full)}
    # ---- mixed access modes: the handle is read-only, contexts ask for 'r+', generators alternate
    for G, L in ([(2, 4)] if tier == 'quick' else [(2, 6), (3, 5)]):
        for seq, status, depth in enumerate_schedules(G, L):
            if 'W' in seq:
                continue            # element writes through a read-only handle are C11's business
            for comp in completions(status, depth):
                yield {'G': G, 'sched': list(seq + comp), 'modes': 'mixed'}
    # ---- second mixed variant: r+ handle whose FIRST generator asks for 'r'; later users get the default (r+)
    for G, L in ([(2, 6)] if tier == 'quick' else [(2, 7), (3, 6)]):
        for seq, status, depth in enumerate_schedules(G, L):
            if 'W' in seq or 'R' in seq:
                continue
            for comp in completions(status, depth):
                yield {'G': G, 'sched': list(seq + comp), 'modes': 'mixed2'}
    # ---- a generator of SMALL chunks with element writes just ahead of it (into rows it has not yielded yet): every chunk
    #      must show the array as it is when the chunk is returned, whatever the generator may have read in advance
    for cl in (1, 7, 1000, 30_000, 100_000):
        for offs in ([0], [1, cl - 1 if cl > 1 else 2], [cl, 3 * cl + 1], [50_000], [120_000, 131_071, 131_072], [262_144, 400_000]):
            for second in (False, True):
                yield {'G': 1 + second, 'sched': [f'lookahead cl={cl} ahead={offs} second_generator={second}'],
                       'lookahead': {'chunklen': cl, 'offsets': offs, 'second': second}}
    if tier == 'thorough':
        rng = random.Random(f'C19:{seed}')
        for k in range(20000):
            yield {'G': 3, 'sched': random_schedule(rng, rng.randint(8, 14))}
    else:
        rng = random.Random(f'C19:{seed}')
        for k in range(300):
            yield {'G': 3, 'sched': random_schedule(rng, rng.randint(6, 12))}


def random_schedule(rng, L):
    G = 3
    status, adv, depth, seq = [0] * G, [0] * G, 0, []
    while len(seq) < L:
        opts = []
        started = sum(1 for s in status if s != 0)
        if started < G:
            opts.append(f'S{started}')
        for g in range(G):
            if status[g] == 1:
                opts += [f'A{g}', f'A{g}', f'C{g}']
        if depth < 2:
            opts.append('E')
        if depth > 0:
            opts.append('X')
        opts += ['R', 'W']
        a = rng.choice(opts)
        seq.append(a)
        if a[0] == 'S':
            status[int(a[1])] = 1
        elif a[0] == 'A':
            g = int(a[1])
            adv[g] += 1
            if adv[g] > NFRAMES[g]:
                status[g] = 2
        elif a[0] == 'C':
            status[int(a[1])] = 2
        elif a == 'E':
            depth += 1
        elif a == 'X':
            depth -= 1
    comp = list(rng.choice(list(completions(status, depth))))
    return seq + comp


_arr = {}


def setup(env):
    d = env.scratch.new('big')
    path = d / 'big.darr'
    env.darr.asarray(path, np.arange(N, dtype='float64'), accessmode='r+')
    _arr['path'] = path


def execute(env, sched, modes=None):
    """Runs inside the forked child.  Returns list of problems (strings)."""
    D = env.darr
    path = _arr['path']
    model = np.fromfile(path / 'arrayvalues.bin', dtype='<f8')
    mixed = modes in ('mixed', 'mixed2')
    a = D.Array(path, accessmode='r' if modes == 'mixed' else 'r+')
    problems = []
    gens, gpos, ctxs = {}, {}, []
    rw = 0
    nchunks = 0
    for step, act in enumerate(sched):
        if act[0] == 'S':
            g = int(act[1])
            gens[g] = a.iterchunks(**GPARAMS[g], **({'accessmode': ([None, 'r+', 'r'] if modes == 'mixed' else ['r', None, 'r+'])[g]} if mixed else {}))
            gpos[g] = 0
        elif act[0] == 'A':
            g = int(act[1])
            fr = gframes(g)
            try:
                chunk = next(gens[g])
            except StopIteration:
                if gpos[g] != len(fr):
                    problems.append(f'step {step} {act}: generator exhausted after {gpos[g]} of {len(fr)} chunks')
                continue
            if gpos[g] >= len(fr):
                problems.append(f'step {step} {act}: extra chunk yielded')
                continue
            s, e = fr[gpos[g]]
            gpos[g] += 1
            nchunks += 1
            if chunk.shape != (e - s,) or not np.array_equal(chunk, model[s:e]):
                bad = int(np.argmax(chunk != model[s:e])) if chunk.shape == (e - s,) else -1
                problems.append(f'step {step} {act}: chunk [{s}:{e}] differs from the array contents at that moment '
                                f'(first differing offset {bad})')
        elif act[0] == 'C':
            gens[int(act[1])].close()
        elif act == 'E':
            cm = a.open_array(accessmode='r+') if modes == 'mixed' and len(ctxs) == 0 else a.open_array()
            cm.__enter__()
            ctxs.append(cm)
        elif act == 'X':
            ctxs.pop().__exit__(None, None, None)
        elif act == 'R':
            i = RW_INDEX[rw % len(RW_INDEX)]
            rw += 1
            v = a[i]
            if float(v) != float(model[i]):
                problems.append(f'step {step} R: a[{i}] = {float(v)}, model {float(model[i])}')
        elif act == 'W':
            i = RW_INDEX[rw % len(RW_INDEX)]
            rw += 1
            val = float(model[i] + 1000003.0 + step)
            a[i] = val
            model[i] = val
    leaks = fdmap(path)
    if leaks:
        problems.append(f'LEAK after all generators and contexts finished: {leaks}')
    fresh = D.Array(path)[:]
    raw = np.fromfile(path / 'arrayvalues.bin', dtype='<f8')
    if not np.array_equal(fresh, model) or not np.array_equal(raw, model):
        problems.append('LOSTWRITE: final contents (fresh handle / raw file) differ from the model')
    return {'problems': problems, 'nchunks': nchunks, 'reach': sorted(env.reach)}


def execute_lookahead(env, spec):
    D = env.darr
    path = _arr['path']
    model = np.fromfile(path / 'arrayvalues.bin', dtype='<f8')
    a = D.Array(path, accessmode='r+')
    cl, problems, nchunks = spec['chunklen'], [], 0
    g = a.iterchunks(cl)
    g2 = a.iterchunks(50_000, stepsize=20_000) if spec['second'] else None
    pos = 0
    for k in range(min(40, N // cl)):
        chunk = next(g)
        nchunks += 1
        if chunk.shape != (cl,) or not np.array_equal(chunk, model[pos:pos + cl]):
            bad = int(np.argmax(chunk != model[pos:pos + cl])) if chunk.shape == (cl,) else -1
            problems.append(f'advance {k}: chunk [{pos}:{pos + cl}] differs from the array contents at that moment '
                            f'(first differing offset {bad}: chunk has {chunk[bad] if bad >= 0 else None}, array {model[pos + bad]})')
            break
        pos += cl
        if g2 is not None and k % 3 == 0:
            c2 = next(g2)
            s2 = (k // 3) * 20_000
            nchunks += 1
            if not np.array_equal(c2, model[s2:s2 + 50_000]):
                problems.append(f'advance {k}: chunk [{s2}:{s2 + 50_000}] of the second generator differs from the array contents')
                break
        for off in spec['offsets']:
            i = pos + off
            if i < N:
                val = float(-(k * 1000 + off) - 0.5)
                a[i] = val
                model[i] = val
    g.close()
    if g2 is not None:
        g2.close()
    leaks = fdmap(path)
    if leaks:
        problems.append(f'LEAK after all generators and contexts finished: {leaks}')
    if not np.array_equal(np.fromfile(path / 'arrayvalues.bin', dtype='<f8'), model):
        problems.append('LOSTWRITE: final contents (raw file) differ from the model')
    return {'problems': problems, 'nchunks': nchunks, 'reach': sorted(env.reach)}


def run_case(case, env):
    res = Result()
    sched = case['sched']
    if case.get('lookahead'):
        info = run_forked(lambda: execute_lookahead(env, case['lookahead']), timeout=120, faultlog_dir=str(env.scratch.root))
    else:
        info = run_forked(lambda: execute(env, sched, case.get('modes')), timeout=120, faultlog_dir=str(env.scratch.root))
    res.count('mon.child_status')
    res.count(f'child.{info["status"]}')
    res.dim('schedule_length', len(sched))
    res.dim('generators', case['G'])
    st = info['status']
    if st == 'signal':
        res.fail(f'child-killed-by-signal:{info.get("signame")}',
                 f'schedule {" ".join(sched)} killed the interpreter with {info.get("signame")}',
                 schedule=sched, faulthandler=info['trace'][-1500:])
    elif st == 'timeout':
        raise RuntimeError(f'child timed out on schedule {sched} (inconclusive)')
    elif st in ('exception', 'exit'):
        res.fail('child-exception', f'schedule {" ".join(sched)} raised: {info["trace"][-600:]}', schedule=sched)
    else:
        r = info['result']
        env.reach.update(r['reach'])
        res.count('mon.chunk_values', r['nchunks'])
        res.count('mon.fdmap_end')
        res.count('mon.writes_persist')
        for p in r['problems']:
            kind = 'fd-or-map-leak' if p.startswith('LEAK') else 'lost-write' if p.startswith('LOSTWRITE') \
                else 'wrong-value'
            res.fail(kind, f'schedule {" ".join(sched)}: {p}', schedule=sched)
    res.nontrivial = True if case.get('lookahead') else overlap(sched)
    res.sig = ' '.join(sched) + (f' /{case["modes"]}' if case.get('modes') else '')
    res.dim('access_modes', case.get('modes') or 'all r+')
    return res
