"""C12 — indexing reads and writes follow NumPy semantics, as detached copies, durably."""
import mmap
import random

import numpy as np

from .. import gens, hist_stale
from ..common import Result
from ..monitors import bits_equal, fdmap, same_dtype, describe
from ..procs import run_forked, run_case_forked

PID = 'C12'
LEVEL = 'exploration'
RULE = ('generated access sequences (5-30 reads/assignments) on arrays of rank 1-4 (incl. empty first axis) x 6 dtypes x '
        'both byte orders; index expressions composed from an enumerated pool (Python and NumPy-scalar ints incl. negative/out of range, slices '
        'with steps/reversed/empty/out of range, Ellipsis, None, tuples up to rank+1, integer-array and boolean-mask '
        'indexing, wrong arity, non-index objects); each access executed outside and inside open_array(); monitors: '
        'NumPy reference (value, shape, dtype, exception class), ownership of the result, fd/map census after every '
        'access, persistence of assignments (live, fresh, raw file); durability of results after overwrite/truncate/'
        'delete in a forked child on 2.4 MB arrays. Non-trivial = sequence with >= 1 successful read of >= 1 element; '
        'distinct by (shape, dtype, byte order, sequence of index descriptors)')
EXHAUSTIVE = False
ASSUMPTIONS = ['scalar results are compared as 0-d arrays (Darr returns np.array(scalar))',
               'error classes are compared up to subclass relation']
ANCHORS = ['array:Array.__getitem__', 'array:Array.__setitem__', 'array:Array._open_array',
           'array:Array.open_array', 'array:Array.check_arraywriteable']
REQUIRED = ['mon.readonly_assignments', 'mon.child_status', 'mon.read_vs_numpy', 'mon.assign_vs_numpy', 'mon.ownership', 'mon.fdmap', 'mon.inside_eq_outside',
            'mon.durability_child', 'mon.error_class']
MIN_NONTRIVIAL = {'quick': 800, 'thorough': 15000}

DTYPES = ['int8', 'uint16', 'int32', 'float32', 'float64', 'complex128']
SHAPES = [(7,), (0,), (1,), (4, 3), (0, 2), (2, 1), (3, 2, 2), (2, 3, 1, 2), (0, 2, 2), (5, 1, 1)]


def axis_pool(n):
    return [('i', 0), ('i', -1), ('i', n - 1), ('i', n), ('i', -n - 1), ('i', 1),
            ('s', None, None, None), ('s', 1, None, None), ('s', None, -1, None), ('s', None, None, 2),
            ('s', None, None, -1), ('s', 5, 2, None), ('s', -100, 100, None), ('s', 1, n, 3),
            ('s', None, None, -2), ('s', 0, 0, None), ('e',), ('n',),
            ('l', [0, n - 1, 0]), ('l', [0]), ('l', [n]), ('l', []), ('l', [-1, 0]), ('l2', [[0], [n - 1]]),
            ('np', 'int64', 0), ('np', 'int64', -1), ('np', 'uint8', 0), ('np', 'intp', n - 1), ('np', 'int16', n),
            ('m', 'axis'), ('m', 'wronglen')]


WHOLE = [('m', 'full'), ('x', 'str'), ('x', 'float'), ('x', 'obj'), ('x', 'floatlist'), ('x', 'floattuple'),
         ('x', 'none_only'), ('l', []), ('x', 'npint'), ('x', 'boolscalar'), ('x', 'dict')]


def realise(comp, n, shape, rng):
    k = comp[0]
    if k == 'i':
        return int(comp[1])
    if k == 's':
        return slice(comp[1], comp[2], comp[3])
    if k == 'e':
        return Ellipsis
    if k == 'n':
        return None
    if k == 'l':
        return list(comp[1])
    if k == 'l2':
        return np.array(comp[1], dtype='int64')
    if k == 'np':                                   # NumPy integer scalars are basic indices too
        return np.dtype(comp[1]).type(comp[2] if comp[2] >= 0 or comp[1] != 'uint8' else 0)
    if k == 'm':
        if comp[1] == 'axis':
            return np.array([(j % 2 == 0) for j in range(n)], dtype=bool)
        if comp[1] == 'wronglen':
            return np.array([True] * (n + 1), dtype=bool)
        r = random.Random(comp[2] if len(comp) > 2 else 0)
        return np.array([r.random() < 0.5 for _ in range(int(np.prod(shape)))], dtype=bool).reshape(shape)
    if k == 'x':
        return {'str': 'x', 'float': 1.5, 'obj': object(), 'floatlist': [1.5], 'floattuple': (1.5,),
                'none_only': None, 'npint': np.int64(0), 'boolscalar': True, 'dict': {}}[comp[1]]
    raise ValueError(comp)


def make_index(rng, shape):
    """-> (descriptor, python index object)"""
    r = rng.random()
    if r < 0.12:
        c = rng.choice(WHOLE)
        if c == ('m', 'full'):
            c = ('m', 'full', rng.randrange(1000))
        return [list(c)], realise(c, shape[0], shape, rng)
    arity = rng.choice([1, 1, 2, len(shape), len(shape), len(shape) + 1])
    arity = max(1, arity)
    comps = []
    for ax in range(arity):
        n = shape[ax] if ax < len(shape) else 1
        c = rng.choice(axis_pool(n))
        if c[0] == 'e' and any(x[0] == 'e' for x in comps):
            c = ('s', None, None, None)
        comps.append(c)
    objs = [realise(c, shape[ax] if ax < len(shape) else 1, shape, rng) for ax, c in enumerate(comps)]
    desc = [list(c) for c in comps]
    if arity == 1 and rng.random() < 0.6:
        return desc, objs[0]
    return desc, tuple(objs)


def cases(tier, seed):
    rng = random.Random(f'C12:{seed}')
    n = 1500 if tier == 'quick' else 30000
    for k in range(n):
        yield {'t': 'seq', 'shape': list(SHAPES[k % len(SHAPES)]), 'numtype': DTYPES[(k // len(SHAPES)) % len(DTYPES)],
               'bo': gens.BO[k % 2], 'k': k, 'len': rng.randint(5, 30), 'mode': 'r' if k % 7 == 3 else 'r+'}
    for k in range(48 if tier == 'quick' else 400):
        yield {'t': 'durability', 'numtype': DTYPES[k % len(DTYPES)], 'bo': gens.BO[k % 2],
               'fate': ['overwrite', 'truncate', 'delete', 'recreate'][k % 4], 'k': k}
    # the length of the array changes INSIDE an open context of the same object; indexing inside and outside must agree
    for k in range(60 if tier == 'quick' else 600):
        yield {'t': 'resize', 'numtype': DTYPES[k % len(DTYPES)], 'bo': gens.BO[k % 2], 'k': k,
               'shape': list([(6,), (5, 2), (3000,), (4, 1, 2)][k % 4]), 'ops': [['trunc', 'app', 'trunc0', 'app'], ['app', 'trunc'],
                                                                                  ['trunc', 'trunc', 'app'], ['trunc0', 'app', 'app']][(k // 4) % 4]}
    # reads and assignments through a handle whose array was changed by other means (path / second handle / re-creation
    # with the same byte size but another type or shape)
    for c in hist_stale.array_cases(random.Random(f'C12:{seed}:stale'), 300 if tier == 'quick' else 4000, seed,
                                    hops=hist_stale.HOPS + ['h:read', 'h:set', 'h:read', 'h:ctxfail']):
        c['t'] = 'stale'
        yield c


def classify_exc(e):
    return type(e)


def related(a, b):
    return issubclass(a, b) or issubclass(b, a)


def owned(x):
    """Result is a plain in-memory ndarray with no memory map behind it."""
    if type(x) is not np.ndarray:
        return False, f'type {type(x).__name__}'
    b = x
    while b is not None:
        if isinstance(b, (np.memmap, mmap.mmap)):
            return False, f'base chain contains {type(b).__name__}'
        b = getattr(b, 'base', None)
    if not x.flags.owndata and x.base is not None and not isinstance(x.base, np.ndarray):
        return False, f'owndata false, base {type(x.base).__name__}'
    return True, ''


def run_case(case, env):
    if case['t'] == 'durability':
        return run_durability(case, env, Result())
    if case['t'] == 'stale':
        return run_case_forked(env, case, run_stale, what=f'stale-handle sequence {case}')
    if case['t'] == 'resize':
        return run_case_forked(env, case, run_resize, what=f'resize-inside-context sequence {case}')
    # every access sequence runs in its own forked child: a result that still points into an unmapped
    # file kills the child, which is then the observation (not the death of the worker)
    return run_case_forked(env, case, run_sequence, what=f'access sequence {case}')


def run_resize(case, env):
    res = Result()
    D = env.darr
    rng = env.rng('resize', case['k'])
    dtype = gens.dt(case['numtype'], case['bo'])
    shape = tuple(case['shape'])
    d = env.scratch.new('z')
    try:
        path = d / 'a'
        ref = gens.distinct_values(rng, dtype, shape)
        a = D.asarray(path, ref.copy(), accessmode='r+', chunklen=3)

        def compare(where, step):
            views = {'a[:]': lambda: a[:], 'a[-1]': lambda: a[-1], 'a[::2]': lambda: a[::2], 'a[len-1:]': lambda: a[len(a) - 1:]}
            for name, f in views.items():
                try:
                    want = ('ok', np.array({'a[:]': lambda: ref[:], 'a[-1]': lambda: ref[-1], 'a[::2]': lambda: ref[::2],
                                            'a[len-1:]': lambda: ref[ref.shape[0] - 1:]}[name]()))
                except IndexError:
                    want = ('IndexError',)
                try:
                    got = ('ok', np.asarray(f()))
                except IndexError:
                    got = ('IndexError',)
                res.count('mon.read_vs_numpy')
                if got[0] != want[0] or (got[0] == 'ok' and not bits_equal(got[1], want[1])):
                    res.fail(f'resize-in-context:{where}-read-differs:{step}',
                             f'after {step} inside open_array(): {name} {where} the context gives '
                             f'{describe(got[1]) if got[0] == "ok" else got[0]}, NumPy model {describe(want[1]) if want[0] == "ok" else want[0]}',
                             **case)
                    return False
            return True

        with a.open_array():
            for i, op in enumerate(case['ops']):
                n = ref.shape[0]
                if op == 'app':
                    rows = gens.distinct_values(rng, dtype, (2,) + shape[1:])
                    a.append(rows)
                    ref = np.concatenate([ref, rows]).astype(dtype)
                else:
                    if n == 0:
                        continue
                    k = 0 if op == 'trunc0' else n // 2
                    D.truncate_array(a, k)
                    ref = ref[:k].copy()
                res.count('mon.inside_eq_outside')
                if not compare('inside', op):
                    return res
                if ref.shape[0]:
                    v = gens.distinct_values(rng, dtype, shape[1:])
                    a[-1] = v
                    ref[-1] = v
                    res.count('mon.assign_vs_numpy')
        if compare('outside', 'exit'):
            raw = np.frombuffer((path / 'arrayvalues.bin').read_bytes(), dtype=dtype).reshape(ref.shape)
            fresh = D.Array(path)[:]
            if not bits_equal(np.ascontiguousarray(raw), ref) or not bits_equal(fresh, ref):
                res.fail('resize-in-context:assignment-not-durable', f'after the context the raw file / a fresh handle hold '
                                                                     f'{describe(fresh)}, NumPy model {describe(ref)}', **case)
        res.count('mon.fdmap')
        leak = fdmap(path)
        if leak:
            res.fail('resize-in-context:fd-or-map-left-open', str(leak), **case)
        res.nontrivial = True
        res.sig = repr(('resize', case['numtype'], case['bo'], shape, tuple(case['ops'])))
        res.dim('sequence', 'resize-inside-context')
        return res
    finally:
        env.scratch.drop(d)


def run_stale(case, env):
    res = Result()
    hist_stale.run_array(env, res, case, census=True)
    res.sig = hist_stale.sig_of(case)
    res.dim('sequence', 'stale-handle')
    return res


def run_sequence(case, env):
    res = Result()
    D = env.darr
    rng = env.rng('seq', case['k'])
    shape = tuple(case['shape'])
    dtype = gens.dt(case['numtype'], case['bo'])
    d = env.scratch.new('i')
    try:
        path = d / 'a'
        ref = gens.distinct_values(rng, dtype, shape) if np.prod(shape) else np.zeros(shape, dtype)
        ref = ref.copy()
        readonly = case.get('mode') == 'r'
        a = D.asarray(path, ref.copy(), accessmode='r' if readonly else 'r+', chunklen=3)
        kept_exc = []
        descs = []
        goodreads = 0
        import contextlib
        outer = contextlib.ExitStack()
        held = case['k'] % 5 == 2
        if held:
            # the whole sequence runs inside ONE outer open_array() context of the object: reads, writes and reads again
            # must agree there too (nothing may be served from a stale buffer)
            outer.enter_context(a.open_array())
            res.count('mon.sequences_inside_one_context')
        away_step = rng.randrange(case['len']) if case['k'] % 4 == 1 and case['k'] % 5 != 2 else -1
        switch_step = rng.randrange(case['len']) if case['k'] % 2 == 1 else -1
        for step in range(case['len']):
            if step == away_step:
                # an access that fails while *opening* the data file (the directory is temporarily somewhere else);
                # everything after it must behave as if it had not happened
                import os
                res.count('mon.failed_open_events')
                os.rename(path, d / 'away')
                for attempt in (lambda: a[...], lambda: a.__setitem__(Ellipsis, 1)):
                    try:
                        attempt()
                    except Exception as e:
                        kept_exc.append(e)
                os.rename(d / 'away', path)
                descs.append(('X', 'failed-open'))
            if readonly and step == switch_step:
                # the read-only handle is switched to r+ *inside* its own open context and written through: the write may
                # be refused, but if it is accepted it has to be a real one (visible outside, to a fresh handle, in the file)
                res.count('mon.mode_switch_in_context')
                accepted = False
                with a.open_array():
                    a.accessmode = 'r+'
                    try:
                        a[...] = 7
                        accepted = True
                    except Exception as e:
                        kept_exc.append(e)
                a.accessmode = 'r'
                descs.append(('S', 'accepted' if accepted else 'refused'))
                if accepted:
                    ref[...] = 7
                for tag, arr in (('live', a[:]), ('fresh', D.Array(path)[:]),
                                 ('rawfile', np.frombuffer((path / 'arrayvalues.bin').read_bytes(), dtype=dtype).reshape(shape))):
                    if not bits_equal(np.ascontiguousarray(arr), ref):
                        res.fail(f'mode-switch-in-context:{"accepted-write-lost" if accepted else "refused-write-applied"}:{tag}',
                                 f'step {step}: a[...] = 7 after accessmode = "r+" inside open_array() of an r handle was '
                                 f'{"accepted" if accepted else "refused"}, but the {tag} view is {describe(arr)}, expected {describe(ref)}',
                                 step=step)
                        break
                if res.fails:
                    break
            desc, idx = make_index(rng, shape)
            is_assign = rng.random() < 0.35
            descs.append(('A' if is_assign else 'R', desc))
            res.dim('index_component', desc[0][0] + (':' + str(desc[0][1]) if desc[0][0] in 'xm' else ''))
            if not is_assign:
                # ---------------------------------------------------------- read
                try:
                    exp = ('ok', np.array(ref[idx]))
                except Exception as e:
                    exp = ('err', type(e), str(e)[:80])
                got = {}
                for where in ('outside', 'inside'):
                    try:
                        if where == 'inside':
                            with a.open_array():
                                v = a[idx]
                        else:
                            v = a[idx]
                        got[where] = ('ok', v)
                    except Exception as e:
                        got[where] = ('err', type(e), str(e)[:80])
                        kept_exc.append(e)      # a caller may keep the exception (and its traceback) alive
                    res.count('mon.fdmap')
                    leak = [] if held else fdmap(path)
                    if leak:
                        res.fail(f'fd-leak-after-read:{got[where][0]}', f'step {step} read {desc} ({where}): still open: {leak}',
                                 step=step, index=desc)
                        break
                if res.fails:
                    break
                res.count('mon.read_vs_numpy')
                res.count('mon.inside_eq_outside')
                for where in ('outside', 'inside'):
                    g = got[where]
                    if exp[0] == 'ok':
                        if g[0] != 'ok':
                            res.fail(f'read-raised-where-numpy-returns:{g[1].__name__}',
                                     f'step {step} a[{desc}] ({where}) raised {g[1].__name__}: {g[2]}; NumPy returns {describe(exp[1])}',
                                     step=step, index=desc)
                            break
                        res.count('mon.ownership')
                        ok, why = owned(g[1])          # inspected before the values are touched
                        if not ok:
                            res.fail('read-result-not-detached', f'step {step} a[{desc}] ({where}): {why}', step=step, index=desc)
                            break
                        if not bits_equal(np.asarray(g[1]), exp[1]):
                            res.fail('read-value-mismatch',
                                     f'step {step} a[{desc}] ({where}) = {describe(g[1])}, NumPy {describe(exp[1])}',
                                     step=step, index=desc)
                            break
                        if exp[1].size:
                            goodreads += 1
                    else:
                        res.count('mon.error_class')
                        if g[0] == 'ok':
                            res.fail(f'read-returned-where-numpy-raises:{exp[1].__name__}',
                                     f'step {step} a[{desc}] ({where}) returned {describe(g[1])}; NumPy raises {exp[1].__name__}',
                                     step=step, index=desc)
                            break
                        if not related(g[1], exp[1]):
                            res.fail(f'read-wrong-error-class:{g[1].__name__}-vs-{exp[1].__name__}',
                                     f'step {step} a[{desc}] ({where}) raised {g[1].__name__}, NumPy raises {exp[1].__name__}',
                                     step=step, index=desc)
                            break
            else:
                # ---------------------------------------------------- assignment
                vkind = rng.choice(['scalar', 'scalar', 'samedtype', 'otherdtype', 'list', 'wrongshape', 'outofrange'])
                try:
                    tgt = ref[idx]
                    tshape = np.shape(tgt)
                except Exception:
                    tshape = ()
                if vkind == 'scalar':
                    v = rng.randrange(0, 100)
                elif vkind == 'outofrange':
                    # Python numbers the array type may not be able to hold: NumPy decides (OverflowError / TypeError /
                    # accepted), Darr must decide the same way
                    v = rng.choice([300, -1, 70000, 2 ** 63, -2 ** 40, 1 + 2j, 1e40, float('nan')])
                elif vkind == 'samedtype':
                    v = gens.distinct_values(rng, dtype, tshape) if int(np.prod(tshape)) else np.zeros(tshape, dtype)
                elif vkind == 'otherdtype':
                    od = rng.choice(['int16', 'uint8', 'float32'])
                    v = (np.arange(int(np.prod(tshape)), dtype='int64') % 50).astype(od).reshape(tshape)
                elif vkind == 'list':
                    v = (np.arange(int(np.prod(tshape)), dtype='int64') % 50).reshape(tshape).tolist()
                else:
                    v = np.zeros(tuple(tshape) + (3,) if tshape else (2, 3), dtype=dtype)
                new = ref.copy()
                try:
                    new[idx] = v
                    exp = ('ok',)
                except Exception as e:
                    exp = ('err', type(e), str(e)[:80])
                    new = ref
                inside = rng.random() < 0.5
                got2 = None
                try:
                    if inside:
                        with a.open_array():
                            a[idx] = v
                    else:
                        a[idx] = v
                    got = ('ok',)
                except Exception as e:
                    got = ('err', type(e), str(e)[:80])
                    kept_exc.append(e)
                if readonly:
                    # the same assignment the other way round: inside and outside must agree
                    try:
                        if inside:
                            a[idx] = v
                        else:
                            with a.open_array():
                                a[idx] = v
                        got2 = ('ok',)
                    except Exception as e:
                        got2 = ('err', type(e), str(e)[:80])
                        kept_exc.append(e)
                res.count('mon.fdmap')
                leak = [] if held else fdmap(path)
                if leak:
                    res.fail(f'fd-leak-after-assignment:{got[0]}', f'step {step} assign {desc}: still open: {leak}', step=step, index=desc)
                    break
                res.count('mon.assign_vs_numpy')
                if readonly:
                    res.count('mon.readonly_assignments')
                    new = ref
                    if got[0] == 'ok' or got2[0] == 'ok':
                        res.fail('readonly-assignment-accepted', f'step {step} a[{desc}] = <{vkind}> through a handle in mode r did not raise',
                                 step=step, index=desc)
                        break
                    if exp[0] == 'ok' and not related(got[1], got2[1]):
                        res.fail(f'readonly-assignment-error-differs-inside-outside:{got[1].__name__}-vs-{got2[1].__name__}',
                                 f'step {step} a[{desc}] = <{vkind}> in mode r raises {got[1].__name__} {"inside" if inside else "outside"} '
                                 f'a context but {got2[1].__name__} {"outside" if inside else "inside"}', step=step, index=desc)
                        break
                    exp = ('err', got[1], '')
                if exp[0] == 'ok' and got[0] != 'ok':
                    res.fail(f'assign-raised-where-numpy-accepts:{got[1].__name__}',
                             f'step {step} a[{desc}] = <{vkind}> raised {got[1].__name__}: {got[2]}', step=step, index=desc, vkind=vkind)
                    break
                if exp[0] == 'err':
                    res.count('mon.error_class')
                    if got[0] == 'ok':
                        res.fail(f'assign-accepted-where-numpy-raises:{exp[1].__name__}',
                                 f'step {step} a[{desc}] = <{vkind}> accepted; NumPy raises {exp[1].__name__}: {exp[2]}',
                                 step=step, index=desc, vkind=vkind)
                        break
                    if not related(got[1], exp[1]):
                        res.fail(f'assign-wrong-error-class:{got[1].__name__}-vs-{exp[1].__name__}',
                                 f'step {step} a[{desc}] = <{vkind}> raised {got[1].__name__}, NumPy {exp[1].__name__}',
                                 step=step, index=desc, vkind=vkind)
                        break
                ref = new
                live = a[:]
                fresh = D.Array(path)[:]
                raw = np.frombuffer((path / 'arrayvalues.bin').read_bytes(), dtype=dtype).reshape(shape)
                for tag, arr in (('live', live), ('fresh', fresh), ('rawfile', raw)):
                    if not bits_equal(np.ascontiguousarray(arr), ref):
                        res.fail(f'assign-effect-mismatch:{tag}',
                                 f'step {step} after a[{desc}] = <{vkind}> the {tag} view is {describe(arr)}, NumPy model {describe(ref)}',
                                 step=step, index=desc, vkind=vkind)
                        break
                if res.fails:
                    break
        outer.close()
        if held and not res.fails:
            res.count('mon.fdmap')
            leak = fdmap(path)
            if leak:
                res.fail('fd-leak-after-outer-context', f'after leaving the outer context: still open: {leak}')
        res.nontrivial = goodreads >= 1
        res.sig = repr((shape, case['numtype'], case['bo'], case.get('mode'), descs))
        res.dim('handle_mode', case.get('mode', 'r+'))
        res.dim('dtype', f"{case['numtype']}/{case['bo']}")
        res.dim('rank', len(shape))
        return res
    finally:
        env.scratch.drop(d)


def run_durability(case, env, res):
    """Keep results, then destroy the file underneath; results must stay valid."""
    D = env.darr
    rng = env.rng('dur', case['k'])
    dtype = gens.dt(case['numtype'], case['bo'])
    nrows = 2_400_000 // (dtype.itemsize * 3)
    d = env.scratch.new('u')
    try:
        path = d / 'a'
        base = (np.arange(nrows * 3, dtype='int64') % 120).astype(dtype).reshape(nrows, 3)
        a = D.asarray(path, base, accessmode='r+')
        fate = case['fate']

        def child():
            idxs = [slice(None), slice(10, nrows - 5, 7), (slice(None), 1), [0, nrows - 1, nrows // 2],
                    (Ellipsis, slice(0, 2)), nrows - 1, (slice(None, None, -1), 0)]
            inside = []
            with a.open_array():
                for ix in idxs[:3]:
                    inside.append(a[ix])
            kept = [a[ix] for ix in idxs] + inside
            chunks = list(a.iterchunks(chunklen=nrows // 3 + 1))
            kept += chunks
            copies = [k.tobytes() for k in kept]
            if fate == 'overwrite':
                a[:] = 77
                with open(path / 'arrayvalues.bin', 'r+b') as f:
                    f.write(b'\xff' * 4096)
            elif fate == 'truncate':
                D.truncate_array(a, 3)
            elif fate == 'delete':
                D.delete_array(a)
            else:
                D.asarray(path, np.zeros((2, 3), dtype='int8'), overwrite=True)
            bad = [i for i, (k, c) in enumerate(zip(kept, copies)) if k.tobytes() != c]
            leaks = fdmap(path)
            return {'changed': bad, 'n': len(kept), 'leaks': leaks}

        info = run_forked(child, timeout=120, faultlog_dir=str(env.scratch.root))
        res.count('mon.durability_child')
        res.dim('durability_fate', fate)
        if info['status'] == 'signal':
            res.fail(f'durability:child-killed:{info.get("signame")}:{fate}',
                     f'results kept across {fate} of the array crashed the interpreter ({info.get("signame")})',
                     trace=info['trace'][-800:])
        elif info['status'] != 'ok':
            res.fail(f'durability:child-{info["status"]}:{fate}', f'{info["trace"][-500:]}')
        elif info['result']['changed']:
            res.fail(f'durability:results-changed:{fate}',
                     f'{len(info["result"]["changed"])} of {info["result"]["n"]} kept results changed after {fate}')
        elif info['result']['leaks']:
            res.fail(f'durability:leak:{fate}', f'open after {fate}: {info["result"]["leaks"]}')
        res.nontrivial = True
        res.sig = repr(('dur', case['numtype'], case['bo'], fate))
        return res
    finally:
        env.scratch.drop(d)
