"""C06 — generated read code for Arrays denotes the stored array in every language."""
import os
import random

import numpy as np

from .. import gens, langsem
from ..common import Result
from ..monitors import bits_equal, describe, same_dtype, snapshot, snapdiff

PID = 'C06'
LEVEL = 'exploration'
RULE = ('complete enumeration of the program structure space: 13 types x 2 byte orders x 9 shapes (1-D..4-D, with length-1 '
        'axes and pairwise distinct extents) x 12 languages x 3 path modes (relative, basepath, abspath) = 8424 programs, '
        'each against an array of random pairwise distinct values (thorough: 3 value fillings and 6 more shapes); plus, for a third of the cases, code requested from a long-lived handle after the array was '
        'changed through a second handle or by path; plus '
        'empty arrays for the "running the code changes nothing" clause. Python-family code is executed; foreign code is '
        'parsed by a strict per-language template and evaluated by a reference interpreter with its own token tables. '
        'Every offered program is non-trivial; distinct by (type, byte order, shape, language, path mode)')
EXHAUSTIVE = True
EXHAUSTIVE_PART = 'type x byte order x shape x language x path mode'
ASSUMPTIONS = ['foreign-language semantics are our transcription of the languages\' documentation (DESIGN Appendix A); no '
               'R/Matlab/Scilab/Julia/IDL/Mathematica/Maple interpreter exists in the sandbox',
               'R int32 minimum (read as NA) is avoided in the values; integer overflow semantics are not modelled']
ANCHORS = ['readcodearray:readcode', 'readcodearray:readcodenumpy', 'readcodearray:readcodenumpymemmap',
           'readcodearray:readcodepython', 'readcodearray:readcoder', 'readcodearray:readcodematlab',
           'readcodearray:readcodematlab_complex', 'readcodearray:readcodescilab', 'readcodearray:readcodescilab_complex',
           'readcodearray:readcodejulia0', 'readcodearray:readcodejulia1', 'readcodearray:readcodeidl',
           'readcodearray:readcodemathematica', 'readcodearray:readcodemaple', 'array:Array.readcode']
REQUIRED = ['mon.stale_handle', 'mon.offer_table', 'mon.executed_python_family', 'mon.interpreted_foreign', 'mon.path_token',
            'mon.tree_unchanged', 'mon.readcodelanguages']
MIN_NONTRIVIAL = {'quick': 5000, 'thorough': 10000}

SHAPES = [(5,), (1,), (2, 3), (3, 1), (1, 4), (2, 3, 4), (3, 1, 2), (2, 3, 4, 5), (2, 1, 3, 1)]
MORE_SHAPES = [(7,), (4, 2), (1, 1), (5, 2, 3), (1, 2, 1), (3, 2, 1, 4)]
EMPTY_SHAPES = [(0,), (0, 3)]
MODES = ['relative', 'basepath', 'abspath']


def cases(tier, seed):
    fillings = 1 if tier == 'quick' else 3
    shapes = SHAPES if tier == 'quick' else SHAPES + MORE_SHAPES
    for fill in range(fillings):
        for nt in gens.T13:
            for bo in gens.BO:
                for shape in shapes:
                    for mode in MODES:
                        yield {'numtype': nt, 'bo': bo, 'shape': list(shape), 'mode': mode, 'fill': fill}
    for nt in gens.T13:
        for bo in gens.BO:
            for shape in EMPTY_SHAPES:
                yield {'numtype': nt, 'bo': bo, 'shape': list(shape), 'mode': 'relative', 'fill': 0, 'empty': True}


def exec_in(code, cwd):
    old = os.getcwd()
    os.chdir(cwd)
    try:
        ns = {}
        exec(compile(code, '<readcode>', 'exec'), ns)
        return ns
    finally:
        os.chdir(old)


def run_case(case, env):
    res = Result()
    D = env.darr
    rng = env.rng('c06', repr(sorted(case.items())))
    nt, bo, shape, mode = case['numtype'], case['bo'], tuple(case['shape']), case['mode']
    dtype = gens.dt(nt, bo)
    d = env.scratch.new('l')
    try:
        (d / 'x' / 'y').mkdir(parents=True)
        os.symlink(d / 'x' / 'y', d / 'lnk')
        path = d / 'x' / 'data.darr'
        stored = gens.distinct_values(rng, dtype, shape) if int(np.prod(shape)) else np.zeros(shape, dtype)
        if (len(shape) + case['fill'] + gens.T13.index(nt)) % 2:
            # process history: the same process has made a ragged array (with its own read code and README) before
            res.count('obs.ragged_array_made_earlier_in_process')
            D.asraggedarray(d / 'rag', [[1, 2], [3]], dtype='int64')
        a = D.asarray(path, stored.copy(), chunklen=3)
        if mode == 'abspath' and sum(shape) % 2:
            # the handle is opened through a path in which '..' follows a symbolic link: only resolving the
            # link gives the real location (a purely lexical normalisation names a file that does not exist)
            a = D.Array(d / 'lnk' / '..' / 'data.darr')
        root = d / 'root'
        (root / 'some').mkdir(parents=True)
        os.symlink(path, root / 'some' / 'base')
        if mode == 'relative':
            kw, cwd, token = {}, path, 'arrayvalues.bin'
        elif mode == 'basepath':
            kw, cwd, token = {'basepath': 'some/base'}, root, 'some/base/arrayvalues.bin'
        else:
            kw, cwd, token = {'abspath': True}, '/', str((path / 'arrayvalues.bin').resolve())
        sigs = set()

        def resolve(tok):
            return tok if os.path.isabs(tok) else os.path.join(cwd, tok)

        # ---- which languages are offered
        res.count('mon.readcodelanguages')
        want = {l for l in langsem.ARRAY_LANGS if langsem.offered_array(l, nt, len(shape))}
        got = set(a.readcodelanguages)
        if got != want:
            res.fail(f'offer:readcodelanguages:{"+".join(sorted(got ^ want))}',
                     f'{nt} {len(shape)}-D: readcodelanguages = {sorted(got)}, documented table gives {sorted(want)}', **case)
        for lang in langsem.ARRAY_LANGS:
            res.count('mon.offer_table')
            try:
                code = a.readcode(lang, **kw)
            except Exception as e:
                res.fail(f'readcode-raised:{lang}:{type(e).__name__}', f'readcode({lang!r}, {kw}) raised {e}', lang=lang, **case)
                continue
            should = lang in want
            if (code is not None) != should:
                res.fail(f'offer:{lang}:{"offered-but-undocumented" if code else "withheld-but-documented"}:{nt}',
                         f'readcode({lang!r}) for {nt} {len(shape)}-D is {"code" if code else "None"}; the documented table says '
                         f'{"supported" if should else "unsupported"}', lang=lang, **case)
                continue
            if code is None:
                continue
            if not isinstance(code, str) or not code.strip():
                res.fail(f'malformed:{lang}:not-a-string', f'readcode returned {type(code).__name__}', lang=lang, **case)
                continue
            sigs.add((nt, bo, shape, lang, mode))
            if case.get('empty'):
                if lang in ('numpy', 'numpymemmap', 'python', 'darr'):
                    check_python_family(res, D, lang, code, path, cwd, token, stored, case, empty=True)
                continue
            if lang in ('numpy', 'numpymemmap', 'python', 'darr'):
                check_python_family(res, D, lang, code, path, cwd, token, stored, case)
            else:
                check_foreign(res, lang, code, resolve, token, stored, case)
        # ---- an array whose README.txt was removed is still an array: running the code must not change it either
        #      (the code comes from the handle that already exists; nothing opens the directory before the snapshot)
        if mode == 'relative' and case['fill'] == 0 and not res.fails and (path / 'README.txt').exists():
            (path / 'README.txt').unlink()
            res.count('mon.no_readme_stage')
            n0 = len(res.fails)
            for lang in ('darr', 'numpy', 'numpymemmap'):
                code = a.readcode(lang)
                if code is not None:
                    check_python_family(res, D, lang, code, path, cwd, token, stored, case, empty=not stored.size)
            for f in res.fails[n0:]:
                f['mech'] = 'no-readme:' + f['mech']
                f['msg'] = 'array directory without README.txt: ' + f['msg']
        # ---- the stored array is changed through ANOTHER handle; code from the first (long-lived)
        #      handle must still denote what is stored now
        if mode == 'relative' and not case.get('empty') and not res.fails and case['fill'] == 0:
            b = D.Array(path, accessmode='r+')
            if shape[0] > 1 and (len(shape) + shape[0]) % 2:
                D.truncate_array(str(path), shape[0] - 1)
                stored2 = stored[:shape[0] - 1].copy()
                how = 'truncate by path'
            else:
                b.append(stored[:1])
                stored2 = np.concatenate([stored, stored[:1]], axis=0).astype(dtype)
                how = 'append through a second handle'
            res.count('mon.stale_handle')
            for lang in langsem.ARRAY_LANGS:
                code = a.readcode(lang)
                if code is None:
                    continue
                n0 = len(res.fails)
                if lang in ('numpy', 'numpymemmap', 'python', 'darr'):
                    check_python_family(res, D, lang, code, path, cwd, token, stored2, case)
                else:
                    check_foreign(res, lang, code, resolve, token, stored2, case)
                for f in res.fails[n0:]:
                    f['mech'] = 'stale-handle:' + f['mech']
                    f['msg'] = f'after {how}, readcode() of the first handle: ' + f['msg']
                sigs.add((nt, bo, shape, lang, 'after-external-change'))
        res.sig = {repr(s) for s in sigs}
        res.nontrivial = bool(sigs)
        res.evals = max(1, len(sigs))
        res.dim('dtype', f'{nt}/{bo}')
        res.dim('shape', shape)
        res.dim('mode', mode)
        return res
    finally:
        env.scratch.drop(d)


def check_python_family(res, D, lang, code, path, cwd, token, stored, case, empty=False):
    res.count('mon.executed_python_family')
    before = snapshot(path)
    src = code.replace('path_to_data_dir', str(path)) if lang == 'darr' else code
    err = None
    ns = {}
    try:
        ns = exec_in(src, cwd)
    except Exception as e:
        err = e
    val = ns.get('a')
    out = None
    try:
        if err is None and not empty:
            if lang == 'darr':
                out = ns['a'][:]
            elif lang == 'python':
                native = stored.dtype.newbyteorder('=')
                nat = stored.astype(native)
                if stored.dtype.kind == 'c':
                    comp = {'complex64': 'float32', 'complex128': 'float64'}[stored.dtype.name]
                    re_, im_ = np.array(ns['real'], dtype=comp), np.array(ns['imag'], dtype=comp)
                    out = (re_ + 1j * im_).astype(native).astype(stored.dtype)
                    exact = ns['real'].tolist() == nat.real.tolist() and ns['imag'].tolist() == nat.imag.tolist() \
                        and ns['real'].typecode == ns['imag'].typecode == {'float32': 'f', 'float64': 'd'}[comp]
                else:
                    out = np.array(val, dtype=native).astype(stored.dtype)
                    # the Python numbers themselves must be the stored values (a wrong signedness would wrap
                    # back unnoticed in a NumPy conversion), and the typecode must be of the stored kind
                    exact = val.tolist() == nat.tolist() and (
                        val.typecode.islower() == (stored.dtype.kind == 'i') if stored.dtype.kind in 'iu'
                        else val.typecode == {'float32': 'f', 'float64': 'd'}[stored.dtype.name])
                if len(val) != stored.size * (2 if stored.dtype.kind == 'c' else 1):
                    out = None
                    err = ValueError(f'array.array holds {len(val)} items')
                elif not exact:
                    out = None
                    err = ValueError(f'array.array({val.typecode!r}) holds other numbers than the stored {stored.dtype.name} values: '
                                     f'{val.tolist()[:4]} vs {nat.ravel().tolist()[:4]}')
            else:
                out = np.array(val)
    finally:
        if lang == 'numpymemmap' and isinstance(val, np.memmap):
            mm = getattr(val, '_mmap', None)
            del val
            ns.clear()
            if mm is not None:
                try:
                    mm.close()
                except Exception:
                    pass
    after = snapshot(path)
    res.count('mon.tree_unchanged')
    if after != before:
        res.fail(f'run-changes-files:{lang}:{"empty" if empty else "nonempty"}-array',
                 f'executing the {lang} code changed the array: {snapdiff(before, after)}', lang=lang, **case)
        # restore, so that later languages see the original
        for rel, (kind, content) in before.items():
            if kind == 'f':
                (path / rel).write_bytes(content)
        return
    if empty:
        return
    if err is not None:
        res.fail(f'python-family-raised:{lang}:{type(err).__name__}:{case["mode"]}',
                 f'{lang} code ({case["mode"]} path) raised {type(err).__name__}: {str(err)[:200]}\n{code}', lang=lang, **case)
        return
    res.count('mon.path_token')
    if lang != 'darr' and f"'{token}'" not in code:
        res.fail(f'path:{lang}:{case["mode"]}', f'{lang} code does not name the data file as {token!r}:\n{code}', lang=lang, **case)
        return
    if not bits_equal(np.ascontiguousarray(out), stored):
        res.fail(f'wrong-values:{lang}', f'{lang} code yields {describe(out)}, stored {describe(stored)}', lang=lang, **case)


def check_foreign(res, lang, code, resolve, token, stored, case):
    res.count('mon.interpreted_foreign')
    try:
        spec = langsem.parse_array_program(lang, code)
    except langsem.Malformed as e:
        res.fail(f'malformed:{lang}:{"complex" if stored.dtype.kind == "c" else "real"}:{min(stored.ndim, 3)}d',
                 f'{lang} program is malformed: {e}\n{code}', lang=lang, **case)
        return
    except langsem.WrongDenotation as e:
        res.fail(f'wrong-denotation:{lang}', f'{lang}: {e}\n{code}', lang=lang, **case)
        return
    res.count('mon.path_token')
    if spec['file'] != token:
        res.fail(f'path:{lang}:{case["mode"]}', f'{lang} code names {spec["file"]!r}, requested path form gives {token!r}',
                 lang=lang, **case)
        return
    try:
        out = langsem.evaluate(spec, resolve)
    except langsem.WrongDenotation as e:
        res.fail(f'wrong-denotation:{lang}', f'{lang}: {e}\n{code}', lang=lang, **case)
        return
    expect = stored if lang in langsem.ROW_MAJOR else stored.T
    if not same_dtype(out.dtype, stored.dtype):
        res.fail(f'wrong-type:{lang}:{stored.dtype.name}',
                 f'{lang} code reads {out.dtype.str}, the array stores {stored.dtype.str}\n{code}', lang=lang, **case)
    elif out.shape != expect.shape:
        res.fail(f'wrong-axes:{lang}', f'{lang} code yields dimensions {out.shape}, expected {expect.shape} '
                 f'({"as stored" if lang in langsem.ROW_MAJOR else "reversed"})\n{code}', lang=lang, **case)
    elif not bits_equal(np.ascontiguousarray(out), np.ascontiguousarray(expect)):
        res.fail(f'wrong-values:{lang}', f'{lang} code yields other values than stored (axes/bytes permuted?)\n{code}',
                 lang=lang, **case)
