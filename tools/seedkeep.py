#!/usr/bin/env python3
"""tools/seedkeep.py <ID> <k> [check ids...]
Confirms a sub-agent's seeded change in a scratch worktree (applies cleanly, existing tests pass, demo exits 0 clean and
1 patched), runs the named quick checks against it in /repo (apply, run, undo) and files it under /verif/seeded/."""
import json, os, shutil, subprocess, sys, re
from pathlib import Path

ID, k = sys.argv[1], sys.argv[2]
checks = sys.argv[3:] or [ID]
src = Path(os.environ.get('SEED_SRC', f'/tmp/seedout/{ID}'))
KOUT = os.environ.get('SEED_K_OUT', k)
patch, demo, meta = src / f'patch{k}.diff', src / f'demo{k}.py', src / f'meta{k}.json'
env = dict(os.environ, PYTHONDONTWRITEBYTECODE='1')
def sh(cmd, **kw):
    return subprocess.run(cmd, shell=True, text=True, capture_output=True, env=env, **kw)
wt = f'/tmp/seedchk_{ID}_{KOUT}'
sh(f'git -C /repo worktree remove --force {wt}')
assert sh(f'git -C /repo worktree add -q --detach {wt} HEAD').returncode == 0
rec = {}
try:
    rec['demo_clean_exit'] = sh(f'/venv/bin/python {demo} {wt}', timeout=600).returncode
    ap = sh(f'git -C {wt} apply {patch}')
    if ap.returncode:       # /repo may have moved on since the sub-agent's worktree was made
        ap = sh(f'git -C {wt} apply --3way {patch}')
    rec['applies'] = ap.returncode == 0
    if not rec['applies']:
        print('PATCH DOES NOT APPLY', ap.stderr[:300]); sys.exit(3)
    t = sh(f'cd {wt} && /venv/bin/python -m pytest -q -p no:cacheprovider 2>&1 | tail -3', timeout=1800)
    rec['tests_tail'] = t.stdout.strip().splitlines()[-1] if t.stdout.strip() else ''
    rec['tests_pass'] = bool(re.search(r'187 passed', rec['tests_tail'])) and 'failed' not in rec['tests_tail']
    rec['demo_patched_exit'] = sh(f'/venv/bin/python {demo} {wt}', timeout=600).returncode
finally:
    sh(f'git -C /repo worktree remove --force {wt}')
print('confirmed:', rec)
ok = rec['demo_clean_exit'] == 0 and rec['tests_pass'] and rec['demo_patched_exit'] == 1
caught = {}
if ok:
    # run the checks against a scratch worktree carrying the patch (DARR_REPO), so that /repo itself - which
    # background runs may be using - is never modified
    rw = f'/tmp/seedrun_{ID}_{KOUT}'
    sh(f'git -C /repo worktree remove --force {rw}')
    assert sh(f'git -C /repo worktree add -q --detach {rw} HEAD').returncode == 0
    try:
        assert sh(f'git -C {rw} apply {patch}').returncode == 0 or sh(f'git -C {rw} apply --3way {patch}').returncode == 0
        for c in checks:
            r = subprocess.run(f'cd /verif && VERIF_EVIDENCE_DIR=/tmp/seedrun_evidence ./check {c} --tier quick', shell=True, text=True,
                               capture_output=True, env=dict(env, DARR_REPO=rw), timeout=3600)
            line = next((l.strip() for l in r.stdout.splitlines() if 'refuted [' in l or 'INCONCLUSIVE' in l), '')
            viol = 'VIOLATION property=' in r.stdout
            caught[c] = {'rc': r.returncode, 'violation_line': viol, 'first': line[:400]}
            print(f'  check {c}: rc={r.returncode} {line[:260]}')
    finally:
        sh(f'git -C /repo worktree remove --force {rw}')
dst = Path(f'/verif/seeded/{ID}-{KOUT}')
if ok:
    dst.mkdir(parents=True, exist_ok=True)
    shutil.copy(patch, dst / 'patch.diff'); shutil.copy(demo, dst / 'demo.py')
    m = json.loads(meta.read_text()) if meta.exists() else {}
    if (dst / 'meta.json').exists():
        prev = json.loads((dst / 'meta.json').read_text())
        if prev.get('strengthening'):
            m['strengthening'] = prev['strengthening']
    m.update({'property': ID, 'confirmed': rec, 'repo_head_when_confirmed': sh('git -C /repo rev-parse --short HEAD').stdout.strip(),
              'ran': f'scratch worktree: demo (clean) / git apply / full pytest / demo (patched); then ./check <id> --tier quick for {checks} with DARR_REPO pointing at a scratch worktree carrying the patch (equivalent to git -C /repo apply / run / git checkout -- . but leaves /repo untouched for concurrent runs)',
              'checks': caught, 'detected_by': [c for c, v in caught.items() if v['rc'] == 1 and v['violation_line']]})
    (dst / 'meta.json').write_text(json.dumps(m, indent=1))
    print('kept ->', dst, 'detected_by', m['detected_by'])
else:
    print('NOT KEPT', rec)
