"""./check --setup : verify that the framework can run here."""
import sys


def main():
    from .common import import_darr, Scratch
    darr = import_darr()
    import numpy as np
    s = Scratch()
    d = s.new('self') / 'a'
    a = darr.asarray(d, np.arange(6, dtype='<i2').reshape(3, 2), chunklen=2)
    try:
        from .decoder import selftest
        selftest(d)
    except ImportError:
        pass
    try:
        import icontract  # noqa
        print('icontract available')
    except ImportError:
        print('icontract NOT available (contract monitors fall back to plain wrappers)')
    print('setup ok: darr from', darr.__file__)
    return 0


if __name__ == '__main__':
    sys.exit(main())
