"""C04 — RaggedArray histories equal a list-of-arrays model and persist."""
import random

from .. import hist_ragged, hist_stale
from ..common import Result

PID = 'C04'
LEVEL = 'exploration'
RULE = ('bounded-exhaustive op sequences (length <= 2 quick / <= 3 thorough) over a 12-op alphabet {append 0/1/3-row item, '
        'append list, iterappend [x, empty], iterappend [], truncate 0/1/-1/len(rejected), mode cycle, reopen} from 7 '
        'asraggedarray start states (subarray-length patterns incl. empty and only-empty subarrays, 5/6/7 subarrays; atoms '
        '(), (2,), (1,3), (2,1)) with value type, byte order and index type rotating through 26 x 7 combinations; a sparse '
        'sample of create_raggedarray starts; long random histories over 26 op kinds incl. items of other dtype/layout, '
        'generators, copy and overwrite re-creation. After every step: len, narrays, atom, dtype, size, every ra[k] for '
        '-len-1 <= k <= len, non-integer indices, iter_arrays on a (start, end, step) grid and the stored index type, on '
        'the live and on a fresh handle. Non-trivial = >= 1 successful change of the number of subarrays; distinct by '
        '(start, types, op sequence)')
EXHAUSTIVE = False
EXHAUSTIVE_PART = 'op sequences up to the length bound per start state'
ASSUMPTIONS = ['only valid appends occur here (failing appends belong to C10)',
               'index types are chosen large enough for the values length (overflow belongs to C10)']
ANCHORS = ['raggedarray:RaggedArray.__getitem__', 'raggedarray:RaggedArray.append', 'raggedarray:RaggedArray.iterappend',
           'raggedarray:RaggedArray._append', 'raggedarray:asraggedarray', 'raggedarray:create_raggedarray',
           'raggedarray:truncate_raggedarray', 'raggedarray:RaggedArray.iter_arrays']
REQUIRED = ['mon.model_live', 'mon.model_fresh', 'mon.indextype_stored', 'mon.rejected_calls']
MIN_NONTRIVIAL = {'quick': 600, 'thorough': 8000}
MONITORS = {'model'}


def cases(tier, seed):
    yield from hist_ragged.history_cases(PID, tier, seed, 250, 4000)
    # histories in which the ragged array changes behind the handle (by path / second handle / re-creation)
    yield from hist_stale.ragged_cases(random.Random(f'C04:{seed}:stale'), 250 if tier == 'quick' else 3000, seed)


def run_case(case, env):
    res = Result()
    if case.get('kind') == 'stale':
        hist_stale.run_ragged(env, res, case)
        res.sig = hist_stale.sig_of(case)
        res.dim('start', 'stale-handle')
        return res
    hist_ragged.run(env, res, case, MONITORS)
    res.sig = hist_ragged.sig_of(case)
    st = case['start']
    res.dim('dtype', f"{st['numtype']}/{st['bo']}")
    res.dim('indextype', st['indextype'])
    res.dim('atom', tuple(st['atom']))
    res.dim('start', st.get('pattern', 'create_raggedarray'))
    return res
