"""Array history engine: executes an operation sequence on a real Darr Array
and, after every step, evaluates the enabled monitors against a NumPy
reference model.  Used by C02 (independent decode vs API), C03 (model,
persistence, prefix bytes, rejected calls) and C08 (README currency).

A history stops at its first failure (later steps would only re-report the
inherited state), so the witness is the shortest failing prefix.
"""
import os
import random
from pathlib import Path

import numpy as np

from . import decoder, gens
from .common import spelled_path
from .monitors import (bits_equal, check_array_disk, check_array_readme,
                       compare_handle, describe, same_dtype)

REJECT = object()


class Partial:
    """The call must raise, and afterwards the array must hold `state` (C09: original + completed chunks)."""
    def __init__(self, state):
        self.state = state


class Either:
    """The statement does not fix whether the call is accepted; if it raises the state must be
    unchanged, otherwise the state must be `accepted`."""
    def __init__(self, accepted):
        self.accepted = accepted

# compact alphabet for the bounded-exhaustive part
ALPHABET = ['app1', 'app2x', 'applist', 'appscalar', 'app0', 'iter2', 'iter0', 'iter0first', 'appzeros',
            'itergen', 'set', 'ctx:app1+app1', 'trunc0', 'trunc1', 'truncm1', 'truncbelow', 'trunclen',
            'truncstr', 'badshape', 'badrank', 'modecycle', 'reopen']
# additional ops for long random histories
EXTRA = ['appF', 'appF', 'ctx:iterfail_shape+app1', 'ctx:app1+iterfail_raise+app3', 'ctx:app3+truncm1+app1', 'ctx:app3+trunc1', 'badshape0', 'badrank0', 'badshape_perm', 'md_bad', 'ctx:app1+iterfail_shape', 'ctx:app3+iterfail_raise', 'ctx:app1+app1+app1', 'ctx:set+iter2', 'ctx:applist+app2x', 'ctx:app0+app1', 'ctx:set+app3', 'app_zerod', 'iterfail_shape', 'iterfail_raise', 'iterfail_first', 'setscalar', 'trunclen1', 'truncfloat', 'truncmid', 'truncneg2', 'app3',
         'recreate', 'recreate_fill', 'md_set', 'md_pop', 'md_clear', 'itergen3', 'copy', 'copycast']
STARTS = [(0,), (3,), (0, 2), (2, 2), (2, 1, 3)]


def _must_raise(d_, sop):
    def wrapped(D, a, p):
        try:
            d_(D, a, p)
        except Exception:
            return a
        raise AssertionError(f'failing append {sop} inside the context returned normally')
    return wrapped


def concat(ref, x):
    """Model of append: concatenation, re-cast to the model's exact dtype
    (np.concatenate silently returns native byte order)."""
    return np.concatenate([ref, np.asarray(x).astype(ref.dtype)], axis=0).astype(ref.dtype)


def build(op, ref, rng, meta):
    """-> (expected, do) where expected is the new reference array or REJECT,
    and do(darr, a, path) performs the call and returns the (possibly new)
    handle.  `meta` is the model of the metadata dict (mutated on success by
    the caller through the returned closure's attribute)."""
    dtype = ref.dtype
    trail = ref.shape[1:]
    n = ref.shape[0]

    def rows(k):
        x = gens.random_values(rng, dtype, (k,) + trail)
        if dtype.itemsize > 1 and rng.random() < 0.3:
            # the same values as an ndarray of the same numeric type in the OPPOSITE byte order (seeds C02-21, C03-21:
            # a conversion skipped when dtype.name matches writes unswapped bytes)
            x = x.astype(dtype.newbyteorder('S'))
        return x

    if op.startswith('ctx:'):
        # several valid operations performed inside ONE open_array() context of the same object
        subs = op[4:].split('+')
        cur, dos, states = ref, [], []
        final = None
        for k_, sop in enumerate(subs):
            e, d_ = build(sop, cur, rng, meta)
            if isinstance(e, Partial) and k_ == len(subs) - 1:
                final, e = e, e.state          # a failing append may close the composite
            elif isinstance(e, Partial):
                # a failing append in the middle: the caller catches its exception inside the context and goes on
                e, d_ = e.state, _must_raise(d_, sop)
            elif e is REJECT or isinstance(e, Either):
                raise ValueError(f'ctx: only valid or failing-append sub-operations, not {sop}')
            cur = e
            dos.append(d_)
            states.append(e)     # expected contents after each sub-operation (for reads made INSIDE the context)
        read_inside = rng.random() < 0.5      # in half of the composites nothing is read inside (observation
                                              # must not become part of every workload)

        def do(D, a, p):
            with a.open_array():
                for k_, d_ in enumerate(dos):
                    try:
                        a = d_(D, a, p)
                        if read_inside:
                            try:
                                do.inside.append((k_, a[:], len(a)))
                            except Exception as e_:
                                do.inside.append((k_, e_, None))
                    finally:
                        if do.probe is not None:
                            do.probe(k_, len(dos))
            return a
        do.probe = None
        do.inside = []
        do.states = states
        do.subs = subs
        return (Partial(cur) if final is not None else cur), do

    if op in ('app1', 'app3'):
        x = rows(1 if op == 'app1' else 3)
        return concat(ref, x), lambda D, a, p: (a.append(x), a)[1]
    if op == 'app2x':
        od = gens.other_dtype(rng, dtype)
        x = gens.relayout(gens.safe_source(rng, od, dtype, (2,) + trail), 'F')
        return concat(ref, x), lambda D, a, p: (a.append(x), a)[1]
    if op == 'applist':
        x = gens.safe_source(rng, 'int64', dtype, (2,) + trail).tolist()
        return concat(ref, np.asarray(x, dtype=dtype)), lambda D, a, p: (a.append(x), a)[1]
    if op == 'appscalar':
        exp = concat(ref, np.array([7], dtype=dtype)) if trail == () else REJECT
        return exp, lambda D, a, p: (a.append(7), a)[1]
    if op == 'app_zerod':
        x = np.array(7, dtype=dtype)
        acc = concat(ref, np.array([7], dtype=dtype)) if trail == () else ref
        return (Either(acc) if trail == () else REJECT), lambda D, a, p: (a.append(x), a)[1]
    if op in ('iterfail_shape', 'iterfail_raise', 'iterfail_first'):
        good = rows(2)
        bad = np.zeros((1,) + (trail[:-1] + (trail[-1] + 1,) if trail else (2,)), dtype=dtype)
        if op == 'iterfail_shape':
            seq, done = [good, bad, good], 1
        elif op == 'iterfail_first':
            seq, done = [bad, good], 0
        else:
            seq, done = None, 1

        def gen():
            yield good
            raise RuntimeError('source failed')
        exp = Partial(concat(ref, good) if done else ref)
        return exp, lambda D, a, p: (a.iterappend(iter(seq) if seq is not None else gen()), a)[1]
    if op == 'app0':
        x = np.zeros((0,) + trail, dtype=dtype)
        return ref, lambda D, a, p: (a.append(x), a)[1]
    if op == 'iter2':
        x, y = rows(1), gens.safe_source(rng, 'int64', dtype, (2,) + trail).tolist()
        exp = concat(concat(ref, x), np.asarray(y, dtype=dtype))
        return exp, lambda D, a, p: (a.iterappend([x, y]), a)[1]
    if op == 'appzeros':        # a chunk that compares equal to zero everywhere but is not all zero BITS (negative zeros)
        x = np.zeros((2,) + trail, dtype=dtype)
        if dtype.kind in 'fc':
            x[...] = -0.0 if dtype.kind == 'f' else complex(-0.0, 0.0)
            x.reshape(-1)[-1:] = 0.0 if dtype.kind == 'f' else complex(0.0, -0.0)
        return concat(ref, x), lambda D, a, p: (a.append(x), a)[1]
    if op == 'appF':            # a Fortran-ordered (not C-contiguous) chunk, also as the first chunk of an empty array
        x = np.asfortranarray(gens.random_values(rng, dtype, (3,) + trail))
        return concat(ref, x), lambda D, a, p: (a.append(x), a)[1]
    if op == 'iter0first':      # the first chunk has no rows, the data comes after it
        e, y = np.zeros((0,) + trail, dtype=dtype), rows(2)
        return concat(ref, y), lambda D, a, p: (a.iterappend(c for c in (e, y)), a)[1]
    if op == 'iter0':
        return ref, lambda D, a, p: (a.iterappend([]), a)[1]
    if op in ('itergen', 'itergen3'):
        parts = [rows(2), gens.safe_source(rng, 'int64', dtype, (1,) + trail).tolist()]
        if op == 'itergen3':
            od = gens.other_dtype(rng, dtype)
            parts.append(gens.relayout(gens.safe_source(rng, od, dtype, (3,) + trail), 'strided'))
        exp = ref
        for q in parts:
            exp = concat(exp, np.asarray(q, dtype=dtype) if isinstance(q, list) else q)
        return exp, lambda D, a, p: (a.iterappend(q for q in parts), a)[1]
    if op == 'set':
        if n == 0:
            return ref, lambda D, a, p: (a.__setitem__(slice(None), 1), a)[1]
        k = max(1, n // 2)
        v = rows(k)
        new = ref.copy()
        new[0:k] = v
        return new, lambda D, a, p: (a.__setitem__(slice(0, k), v), a)[1]
    if op == 'setscalar':
        if n == 0:
            return ref, lambda D, a, p: (a.__setitem__(slice(0, 0), 3), a)[1]
        new = ref.copy()
        new[-1] = 3
        return new, lambda D, a, p: (a.__setitem__(-1, 3), a)[1]
    if op.startswith('trunc'):
        idx = {'trunc0': 0, 'trunc1': 1, 'truncm1': -1, 'trunclen': n,
               'trunclen1': n + 1, 'truncstr': 'x', 'truncfloat': 1.0,
               'truncmid': n // 2, 'truncbelow': -(n + 2), 'truncneg2': -2}[op]
        if type(idx) is int and 0 <= len(ref[:idx]) < n:
            exp = ref[:idx].copy()
        else:
            exp = REJECT
        return exp, lambda D, a, p: (D.truncate_array(a, idx), a)[1]
    if op == 'badshape0':      # no rows, but the wrong trailing shape: still incompatible
        bad = (0,) + (trail[:-1] + (trail[-1] + 1,) if trail else (2,))
        x = np.zeros(bad, dtype=dtype)
        return REJECT, lambda D, a, p: (a.append(x), a)[1]
    if op == 'badrank0':       # an empty list has shape (0,): fine for 1-D arrays, wrong rank for N-D ones
        return (ref if trail == () else REJECT), lambda D, a, p: (a.append([]), a)[1]
    if op == 'md_bad':         # non-serialisable metadata: TypeError, nothing changes
        return REJECT, lambda D, a, p: (a.metadata.update({'bad': {1.5, 2.5}, 'fine': 1}), a)[1]
    if op == 'badshape':
        bad = (1,) + (trail[:-1] + (trail[-1] + 1,) if trail else (2,))
        x = np.zeros(bad, dtype=dtype)
        return REJECT, lambda D, a, p: (a.append(x), a)[1]
    if op == 'badshape_perm':  # same rank and row size, other trailing shape (only distinct for >= 2 trailing axes)
        bad = (1, int(np.prod(trail))) + (1,) * (len(trail) - 1) if len(trail) >= 2 else (1,) + ((trail[0] + 1,) if trail else (2,))
        x = np.zeros(bad, dtype=dtype)
        return REJECT, lambda D, a, p: (a.append(x), a)[1]
    if op == 'badrank':
        bad = (2,) + trail[:-1] if trail else (1, 1)
        x = np.zeros(bad, dtype=dtype)
        return REJECT, lambda D, a, p: (a.append(x), a)[1]
    if op == 'modecycle':
        def do(D, a, p):
            a.accessmode = 'r'
            a.accessmode = 'r+'
            return a
        return ref, do
    if op == 'reopen':
        return ref, lambda D, a, p: D.Array(p, accessmode='r+')
    if op == 'copy':
        def do(D, a, p):
            q = p.parent / (p.name + 'c')
            return a.copy(q, accessmode='r+', chunklen=rng.choice([1, 2, None if ref.size < 50 else 3]))
        do.newpath = True
        return ref, do
    if op == 'copycast':
        tgt = gens.dt(rng.choice(gens.T13), rng.choice(gens.BO))
        if ref.dtype.kind == 'c' and tgt.kind != 'c' or tgt.kind in 'iu' or ref.dtype.kind in 'iu' and tgt.kind in 'iu':
            tgt = ref.dtype.newbyteorder('S') if ref.dtype.itemsize > 1 else ref.dtype
        if ref.dtype.kind in 'iu' and tgt.kind in 'fc' or ref.dtype.kind == tgt.kind or ref.dtype.kind == 'f' and tgt.kind == 'c':
            pass
        new = ref.astype(tgt)

        def do(D, a, p):
            q = p.parent / (p.name + 'k')
            return a.copy(q, dtype=tgt, accessmode='r+', chunklen=2)
        do.newpath = True
        return new, do
    if op == 'recreate':
        nt, bo = rng.choice(gens.T13), rng.choice(gens.BO)
        shape = rng.choice([(0,), (4,), (1, 2), (3, 2), (0, 3), (2, 2, 2)])
        new = gens.random_values(rng, gens.dt(nt, bo), shape)
        cl = rng.choice([1, 2, 5])
        return new, lambda D, a, p: D.asarray(p, new.copy(), accessmode='r+',
                                              chunklen=cl, overwrite=True)
    if op == 'recreate_fill':
        nt = rng.choice(gens.T13)
        shape = rng.choice([(0,), (5,), (3, 2)])
        new = np.full(shape, 3, dtype=np.dtype(nt))
        cl = rng.choice([1, 2, 7])
        return new, lambda D, a, p: D.create_array(p, shape, dtype=nt, fill=3, chunklen=cl,
                                                   overwrite=True)
    if op == 'md_set':
        k, v = rng.choice('ab'), rng.choice([1, 'x', [1, 2], 2.5])

        def do(D, a, p):
            a.metadata[k] = v
            return a
        do.meta = ('set', k, v)
        return ref, do
    if op == 'md_pop':
        k = rng.choice('ab')

        def do(D, a, p):
            a.metadata.pop(k, None) if k in a.metadata else None
            return a
        do.meta = ('pop', k)
        return ref, do
    if op == 'md_clear':
        def do(D, a, p):
            for k in list(a.metadata.keys()):
                a.metadata.pop(k)
            return a
        do.meta = ('clear',)
        return ref, do
    raise ValueError(op)


def descr_state(path):
    try:
        j = decoder.read_descr(path)
        return {k: j.get(k) for k in ('numtype', 'byteorder', 'shape', 'arrayorder',
                                      'darrversion', 'darrobject')}
    except decoder.FormatError as e:
        return {'error': str(e)}


def run(env, res, case, monitors):
    """Execute one history.  monitors ⊆ {'model','ifd_model','ifd_api',
    'prefix','reject','readme'}."""
    D = env.darr
    st = case['start']
    d = env.scratch.new('h')
    apipath, path = spelled_path(d, 'arr', case['vseed'])
    if apipath != path:
        res.count('paths.symlink_dotdot')
    try:
        rng0 = random.Random(f"{case['vseed']}:start")
        dtype = gens.dt(st['numtype'], st['bo'])
        ref = gens.random_values(rng0, dtype, tuple(st['shape']))
        import zlib
        layout = ['C', 'C', 'strided', 'F', 'negstride', 'transposed'][zlib.crc32(('lay' + str(case['vseed'])).encode()) % 6]
        res.dim('source_layout', layout)
        try:
            # the history starts from an input of some memory layout (equal in value): the on-disk order is C whatever it was
            if zlib.crc32(('mode' + str(case['vseed'])).encode()) % 4 == 0:
                # the handle comes in the default mode r and is made writable by assignment afterwards
                a = D.asarray(apipath, gens.relayout(ref.copy(), layout), chunklen=st.get('chunklen', 2))
                a.accessmode = 'r+'
                res.count('starts.mode_r_then_assigned_rplus')
            else:
                a = D.asarray(apipath, gens.relayout(ref.copy(), layout), accessmode='r+', chunklen=st.get('chunklen', 2))
        except Exception as e:
            res.fail(f'start:creation-raised:{type(e).__name__}',
                     f'asarray({"<symlink>/../arr" if apipath != path else "arr"}, {describe(ref)}) raised '
                     f'{type(e).__name__}: {str(e)[:200]}', pathform='symlink/..' if apipath != path else 'plain')
            res.nontrivial = True
            return
        datafile = path / 'arrayvalues.bin'
        nvalid = 0
        for i, op in enumerate([None] + list(case['ops'])):
            rng = random.Random(f"{case['vseed']}:{i}")
            res.count('steps')
            if op is not None:
                res.count(f'op.{op}')
                old_bytes = datafile.read_bytes()
                old_descr = descr_state(path)
                expected, do = build(op, ref, rng, None)
                raised = None
                if hasattr(do, 'probe') and ('ifd_api' in monitors or 'ifd_model' in monitors):
                    def probe(k_, n_, path=path, i=i, op=op):
                        # the files must be well-formed after every completed operation, also while the
                        # array is still held open (only the files are read here, never the handle)
                        res.count('mon.ifd_inside_context')
                        try:
                            decoder.decode_array(path)
                        except decoder.FormatError as e:
                            if not any(f['mech'].startswith('ifd:inside-context') for f in res.fails):
                                res.fail('ifd:inside-context:format-error',
                                         f'step {i} {op}: after sub-operation {k_ + 1} of {n_}, still inside open_array(): {e}',
                                         step=i, op=op)
                    do.probe = probe
                try:
                    a = do(D, a, apipath)
                    if getattr(do, 'newpath', False):
                        apipath = a.path
                        path = Path(os.path.realpath(a.path))
                        datafile = path / 'arrayvalues.bin'
                        old_bytes = b''
                except Exception as e:   # includes StopIteration etc.
                    raised = e
                new_bytes = datafile.read_bytes() if datafile.exists() else None
                if 'model' in monitors and getattr(do, 'inside', None):
                    # what the handle shows INSIDE its own open context after each completed sub-operation
                    for k_, got, glen in do.inside:
                        res.count('mon.read_inside_context')
                        want = do.states[k_]
                        if isinstance(got, Exception) or not bits_equal(np.asarray(got), want) or glen != want.shape[0]:
                            res.fail(f'model:inside-context-read:{do.subs[k_].rstrip("0123456789x")}',
                                     f'step {i} {op}: inside the open context, after sub-operation {k_ + 1} ({do.subs[k_]}) '
                                     f'a[:] gives {describe(got) if not isinstance(got, Exception) else repr(got)[:120]} '
                                     f'(len {glen}), the array holds {describe(want)}', step=i, op=op)
                            break
                if isinstance(expected, Either):
                    expected = REJECT if raised is not None else expected.accepted
                if isinstance(expected, Partial):
                    res.count('mon.failing_appends')
                    if raised is None:
                        if 'model' in monitors or 'reject' in monitors:
                            res.fail(f'partial:no-raise:{op}', f'step {i} {op}: failing iterappend returned normally', step=i, op=op)
                    raised = None
                    expected = expected.state
                if expected is REJECT:
                    res.count('mon.rejected_calls')
                    if 'reject' in monitors:
                        if raised is None:
                            res.fail(f'reject:no-raise:{op}',
                                     f'step {i} {op}: call must be rejected but returned normally',
                                     step=i, op=op)
                        elif new_bytes != old_bytes or descr_state(path) != old_descr:
                            res.fail(f'reject:state-changed:{op}',
                                     f'step {i} {op}: rejected call ({type(raised).__name__}) changed the on-disk state',
                                     step=i, op=op, descr_before=old_descr, descr_after=descr_state(path))
                    elif raised is None:
                        # not judged here, but the state left behind is: evaluate the format
                        # monitors once more, then end the history (the model is unknown now)
                        if 'ifd_api' in monitors:
                            ifd_vs_api(res, D, path, a)
                        if 'readme' in monitors and not res.fails:
                            check_array_readme(res, D, path)
                        res.nontrivial = nvalid >= 1
                        return
                else:
                    if raised is not None:
                        if 'model' in monitors:
                            res.fail(f'model:valid-call-raised:{op}:{type(raised).__name__}',
                                     f'step {i} {op}: valid call raised {type(raised).__name__}: {str(raised)[:200]}',
                                     step=i, op=op, len_before=int(ref.shape[0]), shape=list(ref.shape))
                        else:
                            if 'ifd_api' in monitors:
                                ifd_vs_api(res, D, path, a)
                            if 'readme' in monitors and not res.fails:
                                check_array_readme(res, D, path)
                        res.nontrivial = nvalid >= 1
                        return
                    changed = not bits_equal(expected, ref)
                    if 'prefix' in monitors and new_bytes is not None:
                        if op.startswith(('app', 'iter', 'ctx:app', 'ctx:iter')) and 'set' not in op and 'trunc' not in op:
                            res.count('mon.prefix_append')
                            if not new_bytes.startswith(old_bytes):
                                res.fail('prefix:append-altered-earlier-bytes',
                                         f'step {i} {op}: bytes stored before the append changed',
                                         step=i, op=op)
                        elif op.startswith('trunc'):
                            res.count('mon.prefix_truncate')
                            if new_bytes != old_bytes[:len(new_bytes)] or \
                                    len(new_bytes) != expected.size * expected.dtype.itemsize:
                                res.fail('prefix:truncate-not-leading-prefix',
                                         f'step {i} {op}: file after truncate is not the leading prefix',
                                         step=i, op=op)
                    ref = expected
                    if changed:
                        nvalid += 1
            if res.fails:
                break
            # Observation must not become part of the workload: reading through the live handle after
            # every step would refresh any cache a defect depends on.  'end' histories are only observed
            # after the last step, 'sparse' ones at random steps (and at the end).
            omode = case.get('observe', 'every')
            last = i == len(case['ops'])
            if not last and (omode == 'end' and i > 0 or omode == 'sparse' and random.Random(f"{case['vseed']}:o{i}").random() < 0.7):
                res.count('steps_unobserved')
                continue
            # -------- monitors after the step (also after rejected calls) ----
            if 'model' in monitors:
                check_array_disk(res, D, path, a, ref, want=('live', 'fresh'), mechprefix='model')
            if 'ifd_model' in monitors and not res.fails:
                check_array_disk(res, D, path, None, ref, want=('ifd',), mechprefix='ifdmodel')
            if 'ifd_api' in monitors and not res.fails:
                ifd_vs_api(res, D, path, a)
            if 'readme' in monitors and not res.fails:
                check_array_readme(res, D, path)
            if res.fails:
                for f in res.fails:
                    f['witness'].update({'step': i, 'op': op, 'ops_so_far': case['ops'][:i]})
                break
        res.nontrivial = nvalid >= 1
    finally:
        env.scratch.drop(d)


def ifd_vs_api(res, D, path, live):
    """C02's deciding monitor: a reader using only the files reconstructs
    exactly what the Darr API reports."""
    res.count('mon.ifd_vs_api')
    try:
        dec, j = decoder.decode_array(path)
    except decoder.FormatError as e:
        res.fail('ifd:format-error', f'independent decoder: {e}')
        return
    res.dim('decoded_type', f"{j['numtype']}/{j['byteorder']}")
    res.dim('decoded_rank', len(j['shape']))
    for tag, h in (('live', live), ('fresh', None)):
        try:
            if h is None:
                h = D.Array(path)
            api_vals, api_dtype, api_shape = h[:], h.dtype, tuple(h.shape)
        except Exception as e:
            res.fail(f'ifd:api-unreadable-{tag}',
                     f'files are well-formed but the {tag} Darr handle raised {type(e).__name__}: {e}')
            return
        if not same_dtype(api_dtype, dec.dtype):
            res.fail(f'ifd:dtype-differs-{tag}',
                     f'files say {dec.dtype.str}, {tag} API dtype {np.dtype(api_dtype).str}')
            return
        if api_shape != dec.shape:
            res.fail(f'ifd:shape-differs-{tag}', f'files say {dec.shape}, {tag} API shape {api_shape}')
            return
        if not bits_equal(np.ascontiguousarray(dec), api_vals):
            res.fail(f'ifd:values-differ-{tag}',
                     f'files decode to {describe(dec)}, {tag} API returns {describe(api_vals)}')
            return


def sig_of(case):
    st = case['start']
    return repr(('h', tuple(st['shape']), st['numtype'], st['bo'], tuple(case['ops'])))
