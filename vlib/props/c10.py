"""C10 — a failed RaggedArray append leaves exactly the completed subarrays."""
import os
import random

import numpy as np

from .. import decoder, gens
from ..common import Result
from ..faults import FileSizeLimit, failing_iter, source_exception
from ..monitors import bits_equal, describe
from ..procs import run_forked

PID = 'C10'
LEVEL = 'fault_enumeration'
RULE = ('enumeration of start {empty (no subarrays), non-empty} x atom rank 0-2 x items 0-4 x failure position 0..n x kind '
        '{iterable raises, wrong atom, wrong rank, unconvertible item (str, complex into real, integer too large), index '
        'overflow for int8 / uint8 / int16 index types at the item that crosses 127 / 255 / 32767 values, kernel-enforced '
        'write failure (RLIMIT_FSIZE, forked child) on the values file (values >> indices, limit in between) and on the '
        'indices file (2000 one-value subarrays so that indices >> values) at enumerated byte offsets} x API {append, '
        'iterappend}; oracle: the call raised, RaggedArray(path) opens, the independent structural decoder accepts the '
        'directory, subarrays = original + completely appended ones, live handle agrees. All cases non-trivial; distinct '
        'by fault descriptor')
EXHAUSTIVE = True
EXHAUSTIVE_PART = 'positions x kinds x start states; byte offsets around item boundaries for write faults'
ASSUMPTIONS = ['RLIMIT_FSIZE applies to every file: the file that must fail is made larger than all others (incl. the 8 kB README)']
ANCHORS = ['raggedarray:RaggedArray.append', 'raggedarray:RaggedArray.iterappend', 'raggedarray:RaggedArray._append',
           'array:Array._append', 'array:Array._checkarrayforappend']
REQUIRED = ['mon.failure_oracle', 'mon.logic_faults', 'mon.overflow_faults', 'mon.write_fault_children']
MIN_NONTRIVIAL = {'quick': 400, 'thorough': 2000}

LOGIC = ['iterraises', 'badatom', 'badrank', 'unconvertible_str', 'complex_into_real', 'int_too_large']
ATOMS = [(), (2,), (2, 3)]


def cases(tier, seed):
    combos = [('int32', 'little'), ('float64', 'big'), ('uint8', 'little'), ('complex64', 'big'), ('int16', 'big')]
    nmax = 3 if tier == 'quick' else 4
    for rot in range(1 if tier == 'quick' else 5):
      idx = rot
      for start in ('empty', 'nonempty'):
        for atom in ATOMS:
              for kind in LOGIC:
                  for n in range(0, nmax + 1):
                      for pos in range(0, n + 1):
                          if kind != 'iterraises' and pos == n:
                              continue
                          nt, bo = combos[idx % len(combos)]
                          idx += 1
                          if kind == 'complex_into_real' and nt.startswith('complex'):
                              nt = 'float32'
                          yield {'k': 'logic', 'api': 'iterappend', 'start': start, 'atom': list(atom), 'kind': kind,
                                 'n': n, 'pos': pos, 'numtype': nt, 'bo': bo, 'indextype': gens.INDEXTYPES[idx % 7]}
                          if n == nmax or pos == 0:
                              yield {'k': 'logic', 'api': 'iterappend', 'start': start, 'atom': list(atom), 'kind': kind,
                                     'n': n, 'pos': pos, 'numtype': nt, 'bo': bo, 'indextype': 'int64', 'inctx': True}
                  if kind != 'iterraises':
                      nt, bo = combos[idx % len(combos)]
                      idx += 1
                      if kind == 'complex_into_real' and nt.startswith('complex'):
                          nt = 'int16'
                      yield {'k': 'logic', 'api': 'append', 'start': start, 'atom': list(atom), 'kind': kind, 'n': 1,
                             'pos': 0, 'numtype': nt, 'bo': bo, 'indextype': 'int64'}
    for it, limit in (('int8', 127), ('uint8', 255), ('int16', 32767)):
        for atom in ((), (2,)):
            for pos in range(0, 3):
                for api in ('iterappend', 'append'):
                    if api == 'append' and pos:
                        continue
                    for slack in (0, 1, 3):
                        yield {'k': 'overflow', 'api': api, 'indextype': it, 'limit': limit, 'atom': list(atom),
                               'pos': pos, 'slack': slack, 'numtype': 'uint8' if limit > 1000 else 'int16', 'bo': 'little'}
                    if api == 'iterappend' and pos == 0:
                        # the handle was made with a relative path and the producer of the items has changed the
                        # working directory while it is being consumed (nothing completes, so nothing but the
                        # roll-back has to reach the files)
                        yield {'k': 'overflow', 'api': api, 'indextype': it, 'limit': limit, 'atom': list(atom),
                               'pos': 0, 'slack': 0, 'numtype': 'int16', 'bo': 'little', 'producer_chdir': True}
    for target in ('values', 'indices'):
        for atom in ((), (4,)) if target == 'values' else ((),):
            for nitems in (1, 2, 3):
                itembytes = 4096 if target == 'values' else 1
                offs = set()
                step = itembytes if target == 'values' else 16
                for b in range(0, nitems + 1):
                    for dlt in (-1, 0, 1, step // 2, 8 if target == 'values' else 7):
                        offs.add(b * step + dlt)
                if tier == 'thorough':
                    rng = random.Random(f'C10:{seed}:{target}:{nitems}')
                    offs.update(rng.randrange(0, nitems * step) for _ in range(10))
                for off in sorted(o for o in offs if 0 <= o < nitems * step):
                    for api in (('iterappend', 'append') if nitems == 1 else ('iterappend',)):
                        yield {'k': 'write', 'api': api, 'target': target, 'atom': list(atom), 'nitems': nitems,
                               'offset': off, 'numtype': 'float64' if target == 'values' else 'uint8', 'bo': 'little'}


def good_item(dtype, atom, rows, tag):
    n = rows * (int(np.prod(atom)) if atom else 1)
    return ((np.arange(n, dtype='int64') + 13 * (tag + 1)) % 100).astype(dtype).reshape((rows,) + tuple(atom))


def bad_item(kind, dtype, atom):
    atom = tuple(atom)
    if kind == 'badatom':
        return np.zeros((2,) + (atom[:-1] + (atom[-1] + 1,) if atom else (2,)), dtype=dtype)
    if kind == 'badrank':
        return np.zeros(atom, dtype=dtype).tolist() if atom else np.zeros((1, 1), dtype=dtype)
    x = np.zeros((1,) + atom, dtype=object)
    x[...] = {'unconvertible_str': 'x', 'complex_into_real': 1 + 2j, 'int_too_large': 10 ** 400}[kind]
    return x.tolist()


def oracle(D, path, live, expected, raised_name):
    out = []
    if raised_name is None:
        out.append(('no-raise', 'the failing call returned normally'))
    try:
        fresh = D.RaggedArray(path)
    except Exception as e:
        out.append(('unopenable', f'darr.RaggedArray(path) raised {type(e).__name__}: {str(e)[:200]}'))
        return out
    try:
        subs, info = decoder.decode_ragged(path)
    except decoder.FormatError as e:
        out.append(('ifd-rejects', f'independent decoder: {e}'))
        return out
    if len(fresh) != len(expected):
        out.append(('wrong-number-of-subarrays', f'{len(fresh)} subarrays, expected {len(expected)} (original + completed)'))
        return out
    for k, e in enumerate(expected):
        if not bits_equal(np.asarray(fresh[k]), e) or not bits_equal(np.ascontiguousarray(subs[k]), e):
            out.append(('wrong-subarray-contents', f'subarray {k}: {describe(fresh[k])[:100]} expected {describe(e)[:100]}'))
            return out
    try:
        if len(live) != len(fresh) or live.size != fresh.size or \
                any(not bits_equal(np.asarray(live[k]), np.asarray(fresh[k])) for k in range(len(fresh))):
            out.append(('live-differs-from-fresh', f'live len/size {len(live)}/{live.size}, fresh {len(fresh)}/{fresh.size}'))
    except Exception as e:
        out.append(('live-unreadable', f'{type(e).__name__}: {str(e)[:120]}'))
    return out


def run_case(case, env):
    res = Result()
    d = env.scratch.new('q')
    try:
        {'logic': run_logic, 'overflow': run_overflow, 'write': run_write}[case['k']](case, env, res, d)
        res.nontrivial = True
        res.sig = repr(sorted(case.items(), key=str))
        res.dim('fault_kind', case.get('kind', case['k'] + ':' + str(case.get('target', case.get('indextype')))))
        res.dim('api', case['api'])
        return res
    finally:
        env.scratch.drop(d)


def start_array(D, path, dtype, atom, start, indextype):
    if start == 'empty':
        ra = D.asraggedarray(path, [good_item(dtype, atom, 1, 90)], dtype=dtype, indextype=indextype, accessmode='r+')
        D.truncate_raggedarray(ra, 0)
        return D.RaggedArray(path, accessmode='r+'), []
    model = [good_item(dtype, atom, 2, 91), good_item(dtype, atom, 0, 92), good_item(dtype, atom, 1, 93)]
    return D.asraggedarray(path, [m.copy() for m in model], dtype=dtype, indextype=indextype, accessmode='r+'), model


def run_logic(case, env, res, d):
    D = env.darr
    dtype, atom = gens.dt(case['numtype'], case['bo']), tuple(case['atom'])
    path = d / 'ra'
    ra, model = start_array(D, path, dtype, atom, case['start'], case['indextype'])
    n, pos, kind = case['n'], case['pos'], case['kind']
    items = [good_item(dtype, atom, i % 3, i) for i in range(n)]
    if kind != 'iterraises':
        items[pos] = bad_item(kind, dtype, atom)
    expected = model + items[:pos]
    raised = None

    def call():
        if case['api'] == 'append':
            ra.append(items[0])
        elif kind == 'iterraises':
            ra.iterappend(failing_iter(items, pos, source_exception(n + pos)))
        else:
            ra.iterappend(iter(items))
    try:
        if case.get('inctx'):
            # the same fault inside an open_arrays() context that has already seen a successful append
            pre = good_item(dtype, atom, 2, 70)
            expected = model + [pre] + items[:pos]
            with ra.open_arrays():
                ra.append(pre)
                call()
        else:
            call()
    except Exception as e:
        raised = e
    res.count('mon.logic_faults')
    res.dim('context', 'inside open_arrays after an append' if case.get('inctx') else 'plain')
    res.count('mon.failure_oracle')
    for symptom, msg in oracle(D, path, ra, expected, type(raised).__name__ if raised else None):
        res.fail(f'logic:{kind}:{symptom}:{"first" if pos == 0 else "later"}-item',
                 f'{case["api"]} with {kind} at item {pos} of {n} on {case["start"]} ragged array (atom {atom}, '
                 f'{case["numtype"]}, index {case["indextype"]}): {msg} (raised: {type(raised).__name__ if raised else None})',
                 **case)


def run_overflow(case, env, res, d):
    if case.get('producer_chdir'):
        return run_overflow_chdir(case, env, res, d)
    D = env.darr
    dtype, atom = gens.dt(case['numtype'], case['bo']), tuple(case['atom'])
    path = d / 'ra'
    limit, pos = case['limit'], case['pos']
    first = good_item(dtype, atom, limit - 10 - case['slack'], 1)
    model = [first]
    ra = D.asraggedarray(path, [first.copy()], dtype=dtype, indextype=case['indextype'], accessmode='r+')
    items = [good_item(dtype, atom, 2, 10 + i) for i in range(pos)] + [good_item(dtype, atom, 20, 77),
                                                                      good_item(dtype, atom, 1, 78)]
    # items[:pos] fit (2 rows each, at most 4 rows), item pos crosses the limit of the index type
    expected = model + items[:pos]
    raised = None
    try:
        if case['api'] == 'append':
            ra.append(items[0])
        else:
            ra.iterappend(iter(items))
    except Exception as e:
        raised = e
    res.count('mon.overflow_faults')
    res.count('mon.failure_oracle')
    for symptom, msg in oracle(D, path, ra, expected, type(raised).__name__ if raised else None):
        res.fail(f'overflow:{symptom}',
                 f'{case["api"]}: item {pos} makes the values length exceed {limit} ({case["indextype"]} indices): {msg} '
                 f'(raised: {type(raised).__name__ if raised else None})', **case)


def run_overflow_chdir(case, env, res, d):
    D = env.darr
    dtype, atom = gens.dt(case['numtype'], case['bo']), tuple(case['atom'])
    limit = case['limit']
    first = good_item(dtype, atom, limit - 10, 1)
    items = [good_item(dtype, atom, 20, 77), good_item(dtype, atom, 1, 78)]
    (d / 'work').mkdir()
    (d / 'inputs').mkdir()

    def child():
        os.chdir(d / 'work')
        ra = D.asraggedarray('ra', [first.copy()], dtype=dtype, indextype=case['indextype'], accessmode='r+')

        def producer():
            here = os.getcwd()
            os.chdir(d / 'inputs')
            try:
                yield from items
            finally:
                os.chdir(here)
        g = producer()
        raised = None
        try:
            ra.iterappend(g)
        except Exception as e:
            raised = f'{type(e).__name__}: {str(e)[:160]}'
        finally:
            g.close()
            os.chdir(d / 'work')
        probs = oracle(D, d / 'work' / 'ra', ra, [first], raised.split(':')[0] if raised else None)
        return {'raised': raised, 'problems': probs, 'reach': sorted(env.reach)}

    info = run_forked(child, timeout=180, faultlog_dir=str(env.scratch.root))
    res.count('mon.overflow_faults')
    if info['status'] != 'ok':
        res.fail(f'overflow:chdir-producer:child-{info["status"]}', f'child for {case}: {info["status"]} {info["trace"][-300:]}', **case)
        return
    r = info['result']
    env.reach.update(r['reach'])
    res.count('mon.failure_oracle')
    for symptom, msg in r['problems']:
        res.fail(f'overflow:chdir-producer:{symptom}',
                 f'iterappend through a relative-path handle while the producer has changed the working directory; first '
                 f'item exceeds {limit} ({case["indextype"]} indices): {msg} (raised: {r["raised"]})', **case)


def run_write(case, env, res, d):
    D = env.darr
    dtype, atom = gens.dt(case['numtype'], case['bo']), tuple(case['atom'])
    path = d / 'ra'
    target = case['target']
    rowbytes = dtype.itemsize * (int(np.prod(atom)) if atom else 1)
    if target == 'values':
        model = [good_item(dtype, atom, 40000 // rowbytes, 1), good_item(dtype, atom, 3, 2)]
        itemrows = 4096 // rowbytes
    else:
        model = [good_item(dtype, atom, 1, i) for i in range(2000)]
        itemrows = 1
    ra = D.asraggedarray(path, [m.copy() for m in model], dtype=dtype, accessmode='r+')
    items = [good_item(dtype, atom, itemrows, 50 + i) for i in range(case['nitems'])]
    fpath = path / target / 'arrayvalues.bin'
    base = os.path.getsize(fpath)
    others = max(os.path.getsize(p) for p in path.rglob('*') if p.is_file() and p != fpath)
    step = itemrows * rowbytes if target == 'values' else 16
    off = case['offset']
    completed = min(case['nitems'], off // step)
    expected = model + items[:completed]
    if not base + off > others + 64:
        raise RuntimeError(f'harness: limit {base + off} not above the other files ({others})')

    def child():
        raised = None
        with FileSizeLimit(base + off):
            try:
                if case['api'] == 'append':
                    ra.append(items[0])
                else:
                    ra.iterappend(iter(items))
            except Exception as e:
                raised = f'{type(e).__name__}: {str(e)[:160]}'
        probs = oracle(D, path, ra, expected, raised.split(':')[0] if raised else None)
        return {'raised': raised, 'problems': probs, 'reach': sorted(env.reach),
                'sizes': [os.path.getsize(path / s / 'arrayvalues.bin') for s in ('values', 'indices')]}

    info = run_forked(child, timeout=180, faultlog_dir=str(env.scratch.root))
    res.count('mon.write_fault_children')
    if info['status'] != 'ok':
        res.fail(f'write:child-{info["status"]}', f'child for {case}: {info["status"]} {info["trace"][-300:]}', **case)
        return
    r = info['result']
    env.reach.update(r['reach'])
    res.count('mon.failure_oracle')
    where = 'partial-item' if off % step else 'item-boundary'
    for symptom, msg in r['problems']:
        res.fail(f'write:{target}-file:{where}:{symptom}',
                 f'{case["api"]} of {case["nitems"]} items; growth of {target}/arrayvalues.bin refused {off} bytes in '
                 f'({completed} items fit): {msg} (raised: {r["raised"]}; file sizes now {r["sizes"]})', **case)
