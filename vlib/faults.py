"""Fault injection helpers: kernel-enforced write failure (RLIMIT_FSIZE) and
failing iterables."""
import resource
import signal


class SourceFailed(Exception):
    """Raised by failing iterables (distinguishable from anything Darr raises)."""


def failing_iter(items, fail_at, exc=None):
    """Yields items[:fail_at] then raises SourceFailed (or exc(message))."""
    exc = exc or SourceFailed
    for i, it in enumerate(items):
        if i == fail_at:
            raise exc(f'iterable failed before item {i}')
        yield it
    if fail_at >= len(items):
        raise exc('iterable failed after the last item')


def source_exception(k):
    """The iterable feeding an append may fail with any exception class - also with Darr's own
    AppendDataError, e.g. when it appends to a second array itself and that fails."""
    import darr.array as da
    classes = [SourceFailed, ValueError, OSError, KeyError, getattr(da, 'AppendDataError', RuntimeError), TypeError]
    return classes[k % len(classes)]


class FileSizeLimit:
    """Context manager: no file of this process may grow beyond `limit` bytes.
    The kernel then fails write() with EFBIG (SIGXFSZ is ignored).  Use in a
    forked child only."""

    def __init__(self, limit):
        self.limit = int(limit)

    def __enter__(self):
        signal.signal(signal.SIGXFSZ, signal.SIG_IGN)
        self.old = resource.getrlimit(resource.RLIMIT_FSIZE)
        hard = self.old[1]
        resource.setrlimit(resource.RLIMIT_FSIZE, (self.limit, hard))
        return self

    def __exit__(self, *exc):
        resource.setrlimit(resource.RLIMIT_FSIZE, self.old)
        return False
