"""Second workload: the repository's own test-suite run with the monitors attached.

  cd /repo && PYTHONPATH=/repo:/verif /venv/bin/python -m pytest -q -p no:cacheprovider -p vlib.pytest_monitors

Public mutators of Darr are wrapped ("record and return", never raising into
the test): after every call that returned normally the independent decoder,
the README monitor and - when no context of the object is open - the fd/map
census are evaluated on the directory the call worked on.  This run informs
(the tests corrupt descriptors on purpose); it never decides a property.
The report goes to $VERIF_SECOND_WORKLOAD_REPORT (default /tmp/second_workload.json).
"""
import functools
import json
import os
from collections import Counter
from pathlib import Path

from . import decoder
from .common import Result
from .monitors import check_array_readme, fdmap

STATE = {'calls': Counter(), 'monitor_evals': Counter(), 'findings': [], 'tests': 0}


def _dir_of(obj):
    p = getattr(obj, 'path', None) or getattr(obj, '_path', None)
    return Path(p) if p is not None else None


def _observe(kind, path, what, darr):
    if path is None or not Path(path).exists():
        return
    res = Result()
    try:
        if (Path(path) / 'values').is_dir() and (Path(path) / 'indices').is_dir():
            STATE['monitor_evals']['ifd_ragged'] += 1
            try:
                decoder.decode_ragged(path)
            except decoder.FormatError as e:
                res.fail('ifd-ragged', str(e))
            from .hist_ragged import check_readme
            STATE['monitor_evals']['readme_ragged'] += 1
            check_readme(res, darr, Path(path))
        elif (Path(path) / 'arrayvalues.bin').exists():
            STATE['monitor_evals']['ifd_array'] += 1
            try:
                decoder.decode_array(path)
            except decoder.FormatError as e:
                res.fail('ifd-array', str(e))
            STATE['monitor_evals']['readme_array'] += 1
            check_array_readme(res, darr, Path(path))
    except Exception as e:      # a monitor must never disturb the test it watches
        res.fail('monitor-raised', f'{type(e).__name__}: {e}')
    for f in res.fails:
        STATE['findings'].append({'after': what, 'path': str(path), 'mech': f['mech'], 'msg': f['msg'][:300],
                                  'test': os.environ.get('PYTEST_CURRENT_TEST', '')})


def _wrap_method(cls, name, darr, census=True):
    orig = getattr(cls, name)

    @functools.wraps(orig)
    def wrapper(self, *a, **k):
        out = orig(self, *a, **k)
        STATE['calls'][f'{cls.__name__}.{name}'] += 1
        p = _dir_of(self)
        _observe(cls.__name__, p, f'{cls.__name__}.{name}', darr)
        if census and p is not None and getattr(self, '_memmap', None) is None and \
                getattr(getattr(self, '_values', None), '_memmap', None) is None:
            STATE['monitor_evals']['fdmap'] += 1
            leak = fdmap(p)
            if leak:
                STATE['findings'].append({'after': f'{cls.__name__}.{name}', 'path': str(p), 'mech': 'fd-or-map-left-open',
                                          'msg': str(leak)[:300], 'test': os.environ.get('PYTEST_CURRENT_TEST', '')})
        return out
    setattr(cls, name, wrapper)


def _wrap_function(mod, name, darr, path_arg=0, also=()):
    orig = getattr(mod, name)

    @functools.wraps(orig)
    def wrapper(*a, **k):
        out = orig(*a, **k)
        STATE['calls'][name] += 1
        target = _dir_of(out) if out is not None and _dir_of(out) is not None else None
        if target is None:
            arg = a[path_arg] if len(a) > path_arg else k.get('path', k.get('a', k.get('ra')))
            target = _dir_of(arg) if not isinstance(arg, (str, Path)) else Path(arg)
        _observe('function', target, name, darr)
        return out
    setattr(mod, name, wrapper)
    for m in also:
        if getattr(m, name, None) is orig:
            setattr(m, name, wrapper)


def pytest_configure(config):
    import darr
    import darr.array as da
    import darr.raggedarray as dr
    import darr.metadata as dm
    for name in ('append', 'iterappend', '__setitem__', 'copy'):
        _wrap_method(da.Array, name, darr)
    for name in ('append', 'iterappend', 'copy'):
        _wrap_method(dr.RaggedArray, name, darr)
    for name in ('asarray', 'create_array', 'truncate_array'):
        _wrap_function(da, name, darr, also=(darr, dr))
    for name in ('asraggedarray', 'create_raggedarray', 'truncate_raggedarray'):
        _wrap_function(dr, name, darr, also=(darr,))
    for name in ('update', 'pop', 'popitem'):
        orig = getattr(dm.MetaData, name)

        def make(orig, name):
            @functools.wraps(orig)
            def wrapper(self, *a, **k):
                out = orig(self, *a, **k)
                STATE['calls'][f'MetaData.{name}'] += 1
                _observe('metadata', Path(self.path).parent, f'MetaData.{name}', darr)
                return out
            return wrapper
        setattr(dm.MetaData, name, make(orig, name))


def pytest_runtest_logreport(report):
    if report.when == 'call':
        STATE['tests'] += 1


def pytest_sessionfinish(session, exitstatus):
    out = os.environ.get('VERIF_SECOND_WORKLOAD_REPORT', '/tmp/second_workload.json')
    by = Counter(f['mech'] for f in STATE['findings'])
    rep = {'tests_run': STATE['tests'], 'wrapped_calls': dict(STATE['calls']), 'monitor_evaluations': dict(STATE['monitor_evals']),
           'findings_by_mechanism': dict(by), 'findings': STATE['findings'][:40], 'pytest_exitstatus': int(exitstatus)}
    Path(out).write_text(json.dumps(rep, indent=1))
    print(f'\n[vlib.pytest_monitors] {STATE["tests"]} tests, {sum(STATE["calls"].values())} wrapped calls, '
          f'{sum(STATE["monitor_evals"].values())} monitor evaluations, {len(STATE["findings"])} findings {dict(by)} -> {out}')
