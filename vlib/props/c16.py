"""C16 — deletion and creation never destroy data that is not theirs to destroy."""
import os
import shutil
from pathlib import Path

import numpy as np

from ..common import Result
from ..monitors import snapshot, snapdiff

PID = 'C16'
LEVEL = 'exploration'
RULE = ('complete matrices: (A) delete_array / delete_raggedarray x foreign content kind {file, nested non-empty '
        'directory, symlink to outside file, symlink to outside directory, directory carrying a Darr file name, none} x '
        'location {top, values/, indices/} x call form {object, str, Path}; wrong-kind targets {other Darr kind, plain '
        'directory, plain file, missing path}; (B) creating functions {asarray, create_array, asraggedarray, '
        'create_raggedarray, Array.copy, RaggedArray.copy, archive} x overwrite flag x previous occupant {Array with '
        'metadata, RaggedArray, larger array, smaller array, plain file, foreign directory}, occupants seeded with '
        'foreign entries. Oracle: recursive byte snapshot of target, parent and link targets before/after + exception '
        'class. Every cell is non-trivial; distinct by cell')
EXHAUSTIVE = True
EXHAUSTIVE_PART = 'both matrices'
ASSUMPTIONS = ['for a symlink that itself carries a protected name only the link target must stay untouched',
               'with overwrite=True, leftovers of a previous occupant of another kind may stay (nothing requires removal)']
ANCHORS = ['array:delete_array', 'raggedarray:delete_raggedarray', 'datadir:create_datadir', 'array:asarray',
           'array:create_array', 'raggedarray:asraggedarray', 'raggedarray:create_raggedarray', 'array:Array.copy',
           'raggedarray:RaggedArray.copy', 'datadir:DataDir.archive', 'utils:write_jsonfile']
REQUIRED = ['mon.foreign_survives', 'mon.delete_oserror', 'mon.wrongkind_typeerror', 'mon.nothing_remains',
            'mon.overwrite_false_unchanged', 'mon.overwrite_true_keeps_foreign']
MIN_NONTRIVIAL = {'quick': 800, 'thorough': 800}

FOREIGN = ['file', 'nesteddir', 'symlink_file', 'symlink_dir', 'dir_named_metadata', 'file_in_dir_named_like_darr',
           'file_named_like_other_kind']
FORMS = ['object', 'str', 'Path']
CREATORS = ['asarray', 'create_array', 'asraggedarray', 'create_raggedarray', 'Array.copy', 'RaggedArray.copy',
            'archive', 'asarray_failing_iter', 'asarray_failing_cast', 'create_array_failing_fillfunc',
            'asraggedarray_failing_iter', 'asraggedarray_empty_iter', 'asarray_empty_iter']
OCCUPANTS = ['array_md', 'ragged', 'larger', 'smaller', 'plainfile', 'foreigndir']


def cases(tier, seed):
    for kind in ('Array', 'RaggedArray'):
        locs = ['top'] if kind == 'Array' else ['top', 'values', 'indices']
        for form in FORMS:
            yield {'m': 'delete', 'kind': kind, 'foreign': None, 'loc': 'top', 'form': form}
            for loc in locs:
                for fk in FOREIGN:
                    yield {'m': 'delete', 'kind': kind, 'foreign': fk, 'loc': loc, 'form': form}
    for func in ('delete_array', 'delete_raggedarray'):
        for target in ('otherkind', 'plaindir', 'plainfile', 'missing', 'emptydir'):
            for form in ('str', 'Path'):
                yield {'m': 'wrongkind', 'func': func, 'target': target, 'form': form}
    for func in ('delete_array', 'delete_raggedarray'):
        for now in ('plaindir_with_readme', 'otherkind_md', 'plainfile', 'missing'):
            yield {'m': 'stalehandle', 'func': func, 'now': now}
    for creator in CREATORS:
        for occ in OCCUPANTS:
            for ow in (False, True):
                yield {'m': 'create', 'creator': creator, 'occupant': occ, 'overwrite': ow}
    if True:   # (both tiers: the whole matrix costs ~10 s)
        # one foreign kind at a time, each location, both path forms
        for creator in CREATORS:
            for occ in ('array_md', 'ragged', 'foreigndir', 'smaller'):
                for fk in FOREIGN:
                    for form in ('str', 'Path'):
                        for ow in (False, True):
                            yield {'m': 'create', 'creator': creator, 'occupant': occ, 'overwrite': ow,
                                   'single_foreign': fk, 'pathform': form}
        for kind in ('Array', 'RaggedArray'):
            locs = ['top'] if kind == 'Array' else ['top', 'values', 'indices']
            for form in FORMS:
                for loc in locs:
                    for fk in FOREIGN:
                        for fk2 in ('file', 'symlink_dir'):
                            if fk2 != fk:
                                yield {'m': 'delete', 'kind': kind, 'foreign': fk, 'loc': loc, 'form': form,
                                       'second_foreign': fk2, 'nometa': True}


def mkarray(D, p, n=4, md=None):
    return D.asarray(p, np.arange(n * 2, dtype='int16').reshape(n, 2), metadata=md, accessmode='r+')


def mkragged(D, p, md=None):
    return D.asraggedarray(p, [[1, 2], [], [3]], dtype='float32', metadata=md, accessmode='r+')


def add_foreign(where, outside, fk):
    """Put a foreign entry into directory `where`; returns relative names added."""
    if fk == 'file':
        (where / 'notes.txt').write_bytes(b'user notes \x00\xff')
    elif fk == 'nesteddir':
        (where / 'userdir' / 'deep').mkdir(parents=True)
        (where / 'userdir' / 'deep' / 'data.bin').write_bytes(b'123')
    elif fk == 'symlink_file':
        os.symlink(outside / 'precious.txt', where / 'link_to_file')
    elif fk == 'symlink_dir':
        os.symlink(outside / 'preciousdir', where / 'link_to_dir')
    elif fk == 'dir_named_metadata':
        (where / 'metadata.json').mkdir()
        (where / 'metadata.json' / 'inner.txt').write_text('x')
    elif fk == 'file_named_like_other_kind':
        # a user file that carries a name Darr uses in the *other* kind of directory
        if (where / 'values').is_dir():
            (where / 'arrayvalues.bin').write_bytes(b'not darr data')
        else:
            (where / 'values').mkdir()
            (where / 'values' / 'mine.txt').write_text('user')
            (where / 'indices').write_text('a file, not a directory')
    elif fk == 'file_in_dir_named_like_darr':
        (where / 'arrayvalues.bin.bak').write_bytes(b'backup')
        (where / 'README.txt~').write_bytes(b'editor backup')


def foreign_view(snap, own):
    """Entries of a snapshot that are not Darr's own files."""
    return {k: v for k, v in snap.items() if k not in own and k != '.'}


ARRAY_OWN = {'arrayvalues.bin', 'arraydescription.json', 'README.txt', 'metadata.json'}
RAGGED_TOP = {'arraydescription.json', 'README.txt', 'metadata.json', 'values', 'indices'}
RAGGED_OWN = RAGGED_TOP | {f'{s}/{f}' for s in ('values', 'indices') for f in ARRAY_OWN}


def run_case(case, env):
    res = Result()
    D = env.darr
    d = env.scratch.new('d')
    try:
        outside = d / 'outside'
        (outside / 'preciousdir').mkdir(parents=True)
        (outside / 'precious.txt').write_text('precious')
        (outside / 'preciousdir' / 'p.txt').write_text('precious too')
        parent = d / 'parent'
        parent.mkdir()
        (parent / 'sibling.txt').write_text('sibling')
        if case['m'] == 'delete':
            run_delete(case, env, res, parent, outside)
        elif case['m'] == 'wrongkind':
            run_wrongkind(case, env, res, parent, outside)
        elif case['m'] == 'stalehandle':
            run_stalehandle(case, env, res, parent, outside)
        else:
            run_create(case, env, res, parent, outside)
        res.nontrivial = True
        res.sig = repr(sorted(case.items(), key=str))
        return res
    finally:
        env.scratch.drop(d)


def run_delete(case, env, res, parent, outside):
    D = env.darr
    p = parent / 'target.darr'
    kind = case['kind']
    h = (mkarray(D, p, md={'m': 1}) if kind == 'Array' else mkragged(D, p, md={'m': 1}))
    fk = case['foreign']
    if fk == 'dir_named_metadata' or case.get('nometa'):
        # needs an array without metadata so that the name is free
        shutil.rmtree(p)
        h = mkarray(D, p) if kind == 'Array' else mkragged(D, p)
    own = ARRAY_OWN if kind == 'Array' else RAGGED_OWN
    if fk == 'file_named_like_other_kind':
        own = ARRAY_OWN if kind == 'Array' else RAGGED_OWN   # 'values'/'indices' in an Array dir and a top-level
        # 'arrayvalues.bin' in a ragged dir are foreign
    if fk:
        where = p if case['loc'] == 'top' else p / case['loc']
        add_foreign(where, outside, fk)
        if case.get('second_foreign'):
            add_foreign(p, outside, case['second_foreign'])
    before_t, before_o, before_p = snapshot(p), snapshot(outside), snapshot(parent)
    arg = {'object': h, 'str': str(p), 'Path': Path(p)}[case['form']]
    func = D.delete_array if kind == 'Array' else D.delete_raggedarray
    raised = None
    try:
        func(arg)
    except Exception as e:
        raised = e
    after_t, after_o = snapshot(p), snapshot(outside)
    cell = f"{func.__name__}({case['form']}) with foreign {fk} at {case['loc']}"
    res.dim('delete_cell', f"{kind}:{fk}:{case['loc']}")
    res.count('mon.foreign_survives')
    if after_o != before_o:
        res.fail(f'delete:link-target-damaged:{fk}', f'{cell}: content behind a symlink changed: {snapdiff(before_o, after_o)}', **case)
        return
    if fk is None:
        res.count('mon.nothing_remains')
        if raised is not None:
            res.fail(f'delete:clean-delete-raised:{type(raised).__name__}', f'{cell}: {raised}', **case)
        elif p.exists() or p.is_symlink():
            res.fail('delete:something-remains', f'{cell}: {sorted(after_t)} remain', **case)
        else:
            ap = snapshot(parent)
            exp = {k: v for k, v in before_p.items() if not k.startswith('target.darr')}
            if ap != exp:
                res.fail('delete:parent-changed', f'{cell}: parent differs: {snapdiff(exp, ap)}', **case)
        return
    fb = foreign_view(before_t, own)
    fa = foreign_view(after_t, own)
    if fk == 'dir_named_metadata':
        sub = '' if case['loc'] == 'top' else case['loc'] + '/'
        fb = {k: v for k, v in before_t.items() if k.startswith(f'{sub}metadata.json')}
        fa = {k: v for k, v in after_t.items() if k.startswith(f'{sub}metadata.json')}
    if fa != fb:
        res.fail(f'delete:foreign-content-destroyed:{fk}:{case["loc"]}',
                 f'{cell}: foreign entries changed: {snapdiff(fb, fa)}', **case)
        return
    res.count('mon.delete_oserror')
    if raised is None:
        res.fail(f'delete:no-raise-with-foreign:{fk}:{case["loc"]}', f'{cell}: returned normally', **case)
    elif not isinstance(raised, OSError):
        res.fail(f'delete:wrong-exception:{fk}:{case["loc"]}:{type(raised).__name__}',
                 f'{cell}: raised {type(raised).__name__} instead of OSError: {str(raised)[:150]}', **case)


def run_wrongkind(case, env, res, parent, outside):
    D = env.darr
    p = parent / 'target'
    t = case['target']
    func = getattr(D, case['func'])
    if t == 'otherkind':
        (mkragged if case['func'] == 'delete_array' else mkarray)(D, p)
    elif t == 'plaindir':
        p.mkdir()
        (p / 'arrayvalues.bin').write_bytes(b'\x00' * 8)
        (p / 'something.txt').write_text('user')
    elif t == 'emptydir':
        p.mkdir()
    elif t == 'plainfile':
        p.write_bytes(b'just a file')
    before = snapshot(parent)
    arg = str(p) if case['form'] == 'str' else Path(p)
    raised = None
    try:
        func(arg)
    except Exception as e:
        raised = e
    after = snapshot(parent)
    cell = f"{case['func']}({case['form']}) on {t}"
    res.count('mon.wrongkind_typeerror')
    res.dim('wrongkind_cell', f"{case['func']}:{t}")
    if after != before:
        res.fail(f'wrongkind:modified:{case["func"]}:{t}', f'{cell}: {snapdiff(before, after)}', **case)
    elif raised is None:
        res.fail(f'wrongkind:no-raise:{case["func"]}:{t}', f'{cell}: returned normally', **case)
    elif not isinstance(raised, TypeError):
        res.fail(f'wrongkind:wrong-exception:{case["func"]}:{t}:{type(raised).__name__}',
                 f'{cell}: raised {type(raised).__name__} instead of TypeError: {str(raised)[:150]}', **case)


def run_stalehandle(case, env, res, parent, outside):
    """A handle object whose array has been deleted, while the same path now holds something else."""
    D = env.darr
    p = parent / 'target'
    ragged = case['func'] == 'delete_raggedarray'
    h = (mkragged if ragged else mkarray)(D, p, md={'m': 1})
    shutil.rmtree(p)
    now = case['now']
    if now == 'plaindir_with_readme':
        p.mkdir()
        (p / 'README.txt').write_text('my own notes, not Darr\'s')
        (p / 'arraydescription.json').write_text('{"mine": true}')
        (p / 'data.csv').write_text('1,2,3')
    elif now == 'otherkind_md':
        (mkarray if ragged else mkragged)(D, p, md={'other': 1})
    elif now == 'plainfile':
        p.write_bytes(b'a file now')
    before = snapshot(parent)
    raised = None
    try:
        getattr(D, case['func'])(h)
    except Exception as e:
        raised = e
    after = snapshot(parent)
    res.count('mon.wrongkind_typeerror')
    res.dim('stalehandle_cell', f"{case['func']}:{now}")
    cell = f"{case['func']}(stale handle) while the path now holds {now}"
    if after != before:
        res.fail(f'stalehandle:modified:{case["func"]}:{now}', f'{cell}: {snapdiff(before, after)}', **case)
    elif raised is None:
        res.fail(f'stalehandle:no-raise:{case["func"]}:{now}', f'{cell}: returned normally', **case)


def run_create(case, env, res, parent, outside):
    D = env.darr
    creator, occ, ow = case['creator'], case['occupant'], case['overwrite']
    p = parent / ('target.tar.xz' if creator == 'archive' else 'target')
    src = mkarray(D, parent / 'src_array', n=3, md={'s': 1})
    rsrc = mkragged(D, parent / 'src_ragged')
    # ---- previous occupant
    if occ == 'array_md':
        mkarray(D, p, md={'old': [1, 2]})
    elif occ == 'ragged':
        mkragged(D, p, md={'old': 1})
    elif occ == 'larger':
        mkarray(D, p, n=50)
    elif occ == 'smaller':
        mkarray(D, p, n=1)
    elif occ == 'plainfile':
        p.write_bytes(b'I am a plain file, maybe an older archive')
    elif occ == 'foreigndir':
        p.mkdir()
        (p / 'thesis.tex').write_text('irreplaceable')
    foreign_names = []
    if p.is_dir() and case.get('single_foreign'):
        fk1 = case['single_foreign']
        if not (fk1 == 'dir_named_metadata' and (p / 'metadata.json').exists()):
            add_foreign(p, outside, fk1)
        else:
            add_foreign(p, outside, 'file')
        if (p / 'indices').is_dir() and fk1 != 'dir_named_metadata':
            add_foreign(p / 'indices', outside, fk1 if fk1 != 'file_named_like_other_kind' else 'nesteddir')
    elif p.is_dir():
        add_foreign(p, outside, 'file')
        add_foreign(p, outside, 'nesteddir')
        add_foreign(p, outside, 'symlink_file')
        add_foreign(p, outside, 'symlink_dir')
        if (p / 'values').is_dir():
            add_foreign(p / 'values', outside, 'file')
    own = ARRAY_OWN | RAGGED_OWN
    before_parent, before_o = snapshot(parent), snapshot(outside)
    before_t = snapshot(p)
    raised = None
    pth = p if case.get('pathform') == 'Path' else str(p)
    p_orig, p = p, pth
    try:
        if creator == 'asarray':
            D.asarray(p, np.arange(6, dtype='float64'), overwrite=ow, metadata=None)
        elif creator == 'create_array':
            D.create_array(p, shape=(3, 2), dtype='int8', fill=1, chunklen=2, overwrite=ow)
        elif creator == 'asraggedarray':
            D.asraggedarray(p, [[1.5], [2.5, 3.5]], overwrite=ow)
        elif creator == 'create_raggedarray':
            D.create_raggedarray(p, atom=(2,), dtype='int16', overwrite=ow)
        elif creator == 'asarray_failing_iter':
            def chunks():
                yield np.arange(4, dtype='int32')
                yield np.arange(4, dtype='int32')
                raise RuntimeError('source failed')
            D.asarray(p, chunks(), overwrite=ow)
        elif creator == 'asarray_failing_cast':
            D.asarray(p, (c for c in [np.arange(3.0), np.arange(2.0), ['not', 'numbers']]), overwrite=ow)
        elif creator == 'create_array_failing_fillfunc':
            def ff(i):
                if i.max() > 3:
                    raise RuntimeError('fillfunc failed')
                return i
            D.create_array(p, shape=(9,), fillfunc=ff, chunklen=2, overwrite=ow)
        elif creator == 'asraggedarray_failing_iter':
            def items():
                yield [1.0, 2.0]
                yield [3.0]
                raise RuntimeError('source failed')
            D.asraggedarray(p, items(), overwrite=ow)
        elif creator == 'asraggedarray_empty_iter':     # nothing to store: refused or not, foreign content stays
            D.asraggedarray(p, (x for x in []), overwrite=ow)
        elif creator == 'asarray_empty_iter':
            D.asarray(p, (x for x in []), overwrite=ow)
        elif creator == 'Array.copy':
            src.copy(p, overwrite=ow)
        elif creator == 'RaggedArray.copy':
            rsrc.copy(p, overwrite=ow)
        else:
            src.archive(filepath=str(p), compressiontype='xz', overwrite=ow)
    except Exception as e:
        raised = e
    p = p_orig
    after_parent, after_o, after_t = snapshot(parent), snapshot(outside), snapshot(p)
    cell = f'{creator}(overwrite={ow}) on path occupied by {occ}' + (f' with foreign {case["single_foreign"]}' if case.get('single_foreign') else '')
    res.dim('create_cell', f'{creator}:{occ}:{ow}')
    if after_o != before_o:
        res.fail(f'create:link-target-damaged:{creator}', f'{cell}: {snapdiff(before_o, after_o)}', **case)
        return
    if not ow:
        res.count('mon.overwrite_false_unchanged')
        if after_parent != before_parent:
            res.fail(f'create:overwrite-false-modified:{creator}:{occ}',
                     f'{cell}: path or parent changed: {snapdiff(before_parent, after_parent)}', **case)
        elif raised is None:
            res.fail(f'create:overwrite-false-no-raise:{creator}:{occ}', f'{cell}: returned normally', **case)
        return
    res.count('mon.overwrite_true_keeps_foreign')
    if occ == 'plainfile' and creator != 'archive':
        if after_t != before_t:
            res.fail(f'create:plainfile-destroyed:{creator}', f'{cell}: the plain file was changed', **case)
        return
    if creator == 'archive':
        if occ == 'plainfile':
            if raised is not None:
                res.fail(f'create:archive-overwrite-raised:{type(raised).__name__}', f'{cell}: {raised}', **case)
        elif after_t != before_t:   # a directory sits where the archive should go: nothing in it may change
            res.fail(f'create:archive-damaged-directory:{occ}', f'{cell}: {snapdiff(before_t, after_t)}', **case)
        return
    fb, fa = foreign_view(before_t, own), foreign_view(after_t, own)
    if fa != fb:
        res.fail(f'create:overwrite-true-destroyed-foreign:{creator}:{occ}',
                 f'{cell}: foreign entries changed: {snapdiff(fb, fa)}', **case)
        return
    others_b = {k: v for k, v in before_parent.items() if not k.startswith('target')}
    others_a = {k: v for k, v in after_parent.items() if not k.startswith('target')}
    if others_a != others_b:
        res.fail(f'create:overwrite-true-touched-siblings:{creator}', f'{cell}: {snapdiff(others_b, others_a)}', **case)
