"""C05 — RaggedArray directory stays structurally well-formed and self-describing."""
import random

from .. import hist_ragged, hist_stale
from ..common import Result

PID = 'C05'
LEVEL = 'exploration'
RULE = ('the ragged history workload of C04 (own seed stream; bounded-exhaustive short sequences + long random histories '
        'incl. copy and overwrite re-creation) with the independent structural decoder as the deciding monitor after '
        'every step: both sub-directories well-formed arrays, values.shape[1:] = atom, indices (n,2) of integer type, '
        'indices[0,0]=0, start<=end, start=previous end, last end=N, top-level JSON len/size/atom/numtype/darrobject '
        'consistent, subarray k from the raw files = ra[k]. Non-trivial = >= 1 successful change of the number of '
        'subarrays; distinct by (start, types, op sequence)')
EXHAUSTIVE = False
EXHAUSTIVE_PART = 'op sequences up to the length bound per start state'
ASSUMPTIONS = ['vlib/decoder.py transcribes the documented ragged format; orphaned values with zero subarrays are '
               'recorded as an observation, not a violation (the statement requires last end = N only when n > 0)']
ANCHORS = ['raggedarray:RaggedArray._update_arraydescr', 'raggedarray:RaggedArray._append',
           'raggedarray:truncate_raggedarray', 'raggedarray:asraggedarray', 'array:Array._update_len']
REQUIRED = ['mon.ifd_ragged']
MIN_NONTRIVIAL = {'quick': 600, 'thorough': 8000}
MONITORS = {'ifd'}


def cases(tier, seed):
    yield from hist_ragged.history_cases(PID, tier, seed + 1000, 250, 4000)
    # the ragged array is changed behind a long-lived handle (by path, second handle, re-creation) which is then used again
    yield from hist_stale.ragged_cases(random.Random(f'C05:{seed}:stale'), 250 if tier == 'quick' else 3000, seed)


def run_case(case, env):
    res = Result()
    if case.get('kind') == 'stale':
        hist_stale.run_ragged(env, res, case)
        res.sig = hist_stale.sig_of(case)
        return res
    hist_ragged.run(env, res, case, MONITORS)
    res.sig = hist_ragged.sig_of(case)
    return res
